package main

import (
	"encoding/base64"
	"errors"
	"fmt"
	"io"
	iofs "io/fs"
	"math/rand"
	"net/http"
	"net/http/httptest"
	"net/url"
	"strings"
	"testing/fstest"

	"github.com/labstack/echo/v4"
	"github.com/labstack/echo/v4/middleware"
)

func init() {
	props["C13"] = &propRunner{gen: genC13, rule: "histories of 4-8 requests through ONE BasicAuth and ONE KeyAuth instance: Authorization values (scheme casings, truncated, non-base64, no colon, several colons, empty user/password, non-UTF-8, repeated headers) x validators (password-only, exact pair, erroring) and KeyAuth lookups (header with scheme prefix, custom header prefix, query, form, cookie, several sources, several values) x validator outcomes; the validator call log is an observable; non-trivial = request whose credentials contain >1 colon, or KeyAuth request with >1 candidate value, or a request following an accepted one on the same instance; distinct by request content"}
}

var errC13 = errors.New("c13: validator failure")

func genC13(rng *rand.Rand, n int, emit func(Case), dist map[string]int) {
	creds := []string{"joe:secret", "joe:wrong:secret", "joe:wrong", ":secret", "joe:", "nocolon", "", "jo\xffe:secret", "boom:x", "boomok:x", "a:b:c:secret", "joe:secret:", "ann:pw1", "ann:secret",
		"joe:secret\n", "joe:secret\r\n", "joe:\n", "joe:secret ", " joe:secret", "joe\n:secret", "ann:pw1\t"} // (surrounding blanks / line ends: part of the password, not noise)
	keys := []string{"valid-key", "other-key", "boom", "boomok", "", "Valid-Key", "valid-key ", "k2"}
	lookups := []string{"header:Authorization", "header:X-Api-Key", "query:key", "form:key", "cookie:key", "header:Authorization,query:key", "query:key,cookie:key", "header:X-Api-Key:Token ", "form:key,header:Authorization", "param:key", "param:key,query:key", "header:Authorization:Token ", "header:Authorization:ApiKey ",
		"header:Authorization,header:X-Api-Key", "header:X-Api-Key:Token ,header:X-Other", "header:X-Other,header:Authorization", "cookie:key,header:X-Api-Key:Key ,header:X-Other"}
	e := echo.New()
	for it := 0; it < n; {
		vmode := rng.Intn(3)
		bval := func(u, p string) (bool, error) {
			if u == "boom" {
				return false, errC13
			}
			if u == "boomok" {
				return true, errC13 // "valid" together with an error: the error wins, the handler must not run
			}
			switch vmode {
			case 0:
				return p == "secret", nil
			case 1:
				return u == "joe" && p == "secret" || u == "ann" && p == "pw1", nil
			}
			return u == "joe" && p == "wrong:secret", nil
		}
		var bcalls [][2]string
		ranB := false
		bmw := middleware.BasicAuth(func(u, p string, c echo.Context) (bool, error) {
			bcalls = append(bcalls, [2]string{u, p})
			return bval(u, p)
		})(func(c echo.Context) error { ranB = true; return nil })
		if rng.Intn(4) == 0 {
			// the same BasicAuth instance used as ROUTE-LEVEL middleware of a group route, on a server whose group got its
			// middleware in several separate Use calls and which registers further routes (with other route-level
			// middleware) afterwards and between requests
			em := echo.New()
			em.Logger.SetOutput(io.Discard)
			var served error
			em.HTTPErrorHandler = func(err error, c echo.Context) { served = err }
			g := em.Group("/api")
			pass := func(next echo.HandlerFunc) echo.HandlerFunc { return func(c echo.Context) error { return next(c) } }
			for u := 1 + rng.Intn(4); u > 0; u-- {
				g.Use(pass)
			}
			g.GET("/private", func(c echo.Context) error { ranB = true; return nil }, middleware.BasicAuth(func(u, p string, c echo.Context) (bool, error) {
				bcalls = append(bcalls, [2]string{u, p})
				return bval(u, p)
			}))
			nextPublic := 0
			bmw = func(c echo.Context) error {
				if nextPublic < 3 && rng.Intn(2) == 0 {
					nextPublic++
					g.GET(fmt.Sprintf("/public%d", nextPublic), func(c echo.Context) error { return nil }, pass)
				}
				served = nil
				r := c.Request().Clone(c.Request().Context())
				r.URL.Path = "/api/private"
				em.ServeHTTP(httptest.NewRecorder(), r)
				return served
			}
			dist["basicauth_as_route_middleware_of_group"]++
		} else if rng.Intn(4) == 0 {
			// BasicAuth as the middleware of a GROUP; the protected routes are registered through the group's different
			// registration helpers (per-method, Match, Any, Add, the file-serving ones): none of them may lose the group's middleware
			em := echo.New()
			em.Logger.SetOutput(io.Discard)
			var served error
			em.HTTPErrorHandler = func(err error, c echo.Context) { served = err }
			g := em.Group("/admin", middleware.BasicAuth(func(u, p string, c echo.Context) (bool, error) {
				bcalls = append(bcalls, [2]string{u, p})
				return bval(u, p)
			}))
			hnd := func(c echo.Context) error { ranB = true; return nil }
			g.GET("/get", hnd)
			g.Match([]string{"GET", "POST"}, "/match", hnd)
			g.Any("/any", hnd)
			g.Add("GET", "/add", hnd)
			g.StaticFS("/files", c13FS(func() { ranB = true }))
			g.FileFS("/file", "f", c13FS(func() { ranB = true }))
			paths := []string{"/admin/get", "/admin/match", "/admin/any", "/admin/add", "/admin/files/f.txt", "/admin/file"}
			bmw = func(c echo.Context) error {
				served = nil
				r := c.Request().Clone(c.Request().Context())
				r.URL.Path = paths[rng.Intn(len(paths))]
				em.ServeHTTP(httptest.NewRecorder(), r)
				return served
			}
			dist["basicauth_as_group_middleware_all_registration_helpers"]++
		}
		kval := func(k string) (bool, error) {
			if k == "boom" {
				return false, errC13
			}
			if k == "boomok" {
				return true, errC13
			}
			return k == "valid-key" || vmode == 1 && k == "k2", nil
		}
		lk := lookups[rng.Intn(len(lookups))]
		var kcalls []string
		ranK := false
		// the scheme in front of the key in the Authorization header: default "Bearer"; a configured one with or without a trailing blank means the same
		scheme := []string{"", "", "Token", "Token ", "ApiKey"}[rng.Intn(5)]
		authPfx := scheme
		if authPfx == "" {
			authPfx = "Bearer"
		}
		if !strings.HasSuffix(authPfx, " ") {
			authPfx += " "
		}
		kvalidator := func(k string, c echo.Context) (bool, error) {
			kcalls = append(kcalls, k)
			return kval(k)
		}
		kcfg := middleware.KeyAuthConfig{KeyLookup: lk, AuthScheme: scheme, Validator: kvalidator}
		deniedK := 0
		if rng.Intn(4) == 0 {
			// an error handler that answers by itself and returns nil (ContinueOnIgnoredError stays off: the handler must still not run)
			kcfg.ErrorHandler = func(err error, c echo.Context) error {
				deniedK = http.StatusUnauthorized
				if _, missing := err.(*middleware.ErrKeyAuthMissing); missing {
					deniedK = http.StatusBadRequest
				}
				return c.NoContent(deniedK)
			}
			dist["keyauth_instances_with_custom_error_handler"]++
		}
		kmwf := middleware.KeyAuthWithConfig(kcfg)
		if lk == "header:Authorization" && scheme == "" && kcfg.ErrorHandler == nil && rng.Intn(2) == 0 {
			kmwf = middleware.KeyAuth(kvalidator) // the short constructor: same defaults
			dist["keyauth_short_constructor"]++
		}
		kmw := kmwf(func(c echo.Context) error { ranK = true; return nil })
		verd := func(okv bool, err error) int {
			if err != nil {
				return 2
			}
			if okv {
				return 1
			}
			return 0
		}
		prevAccepted := false
		for q := 4 + rng.Intn(5); q > 0 && it < n; q-- {
			it++
			if rng.Intn(2) == 0 {
				// ---------------- BasicAuth
				cred := creds[rng.Intn(len(creds))]
				b64 := base64.StdEncoding.EncodeToString([]byte(cred))
				var hdrs []string
				mk := func() string {
					switch rng.Intn(18) {
					case 0:
						return "basic " + b64
					case 1:
						return "BASIC " + b64
					case 2:
						return "BaSiC " + b64
					case 3:
						return "Bearer " + b64
					case 4:
						return "BasicX" + b64
					case 5:
						return "Basic"
					case 6:
						return "Basic "
					case 7:
						return "Bas"
					case 8:
						return "Basic !!!" + b64
					case 9:
						return "Basic " + strings.TrimRight(b64, "=")
					case 10:
						return "Basic  " + b64
					case 11:
						return "Basic " + b64 + " "
					case 12:
						return ""
					case 13:
						return "bas\u0130c" + b64 // (a scheme that only LOOKS like basic after Unicode case mapping: U+0130 lower-cases to "i")
					case 14:
						return "BAS\u0130C " + b64
					}
					return "Basic " + b64
				}
				hdrs = append(hdrs, mk())
				if rng.Intn(6) == 0 {
					hdrs = append(hdrs, "Basic "+base64.StdEncoding.EncodeToString([]byte("joe:secret")))
				}
				req := httptest.NewRequest(http.MethodGet, "/", nil)
				for _, h := range hdrs {
					req.Header.Add(echo.HeaderAuthorization, h)
				}
				c := recycledContext(e, req, httptest.NewRecorder())
				bcalls, ranB = nil, false
				code := -1
				panicked := false
				func() {
					defer func() {
						if r := recover(); r != nil {
							panicked = true
						}
					}()
					if err := bmw(c); err != nil {
						if he, isHE := err.(*echo.HTTPError); isHE {
							code = he.Code
						} else {
							code = 0
						}
					}
				}()
				auth := hdrs[0]
				// reference from the property text
				wantRan := false
				var decoded []byte
				decOK := false
				if len(auth) > 6 {
					if d, err := base64.StdEncoding.DecodeString(auth[6:]); err == nil {
						decoded, decOK = d, true
						if strings.EqualFold(auth[:5], "basic") {
							if i := strings.IndexByte(string(d), ':'); i >= 0 {
								okv, err := bval(string(d[:i]), string(d[i+1:]))
								wantRan = okv && err == nil
							}
						}
					}
				}
				ok, why := true, ""
				if panicked {
					ok, why = false, "BasicAuth panicked"
				}
				if ranB != wantRan {
					ok, why = false, fmt.Sprintf("handler ran=%v but per the property it must be %v (Authorization=%q decoded=%q)", ranB, wantRan, auth, decoded)
				}
				if ranB {
					good := false
					for _, cl := range bcalls {
						okv, err := bval(cl[0], cl[1])
						i := strings.IndexByte(string(decoded), ':')
						if okv && err == nil && decOK && i >= 0 && cl[0] == string(decoded[:i]) && cl[1] == string(decoded[i+1:]) {
							good = true
						}
					}
					if !good {
						ok, why = false, fmt.Sprintf("handler ran without the validator approving the first-colon split; calls=%q", bcalls)
					}
				}
				if len(bcalls) > 1 {
					ok, why = false, fmt.Sprintf("validator consulted %d times for one request: %q", len(bcalls), bcalls)
				}
				// verdict table: every colon split of the decoded text
				var tbl []Sx
				for i := 0; i < len(decoded); i++ {
					if decoded[i] == ':' {
						u, p := string(decoded[:i]), string(decoded[i+1:])
						tbl = append(tbl, L(S(u), S(p), I(verd(bval(u, p)))))
					}
				}
				var callsSx []Sx
				for _, cl := range bcalls {
					callsSx = append(callsSx, L(S(cl[0]), S(cl[1])))
				}
				out := code
				if ranB {
					out = -1
				}
				in := L(I(0), S(auth), L(B(decOK), S(string(decoded))), L(tbl...))
				cs := Case{In: in, Out: L(I(out), L(callsSx...)), Ok: ok, Why: why,
					Human: fmt.Sprintf("BasicAuth validator-mode=%d Authorization=%q (decodes to %q) -> ran=%v code=%d validator-calls=%q", vmode, hdrs, decoded, ranB, code, bcalls)}
				if strings.Count(string(decoded), ":") > 1 || prevAccepted {
					cs.Key = Show(in)
				}
				prevAccepted = ranB
				dist["basic_requests"]++
				if ranB {
					dist["basic_accepted"]++
				}
				emit(cs)
				continue
			}
			// ---------------- KeyAuth
			nv := 1 + rng.Intn(3)
			if rng.Intn(15) == 0 {
				nv = 22
			}
			pick := func() string { return keys[rng.Intn(len(keys))] }
			q := url.Values{}
			form := url.Values{}
			method := http.MethodGet
			var cookies []*http.Cookie
			hdr := http.Header{}
			var pnames, pvals []string
			for _, src := range strings.Split(lk, ",") {
				parts := strings.SplitN(src, ":", 3)
				if rng.Intn(5) == 0 {
					continue // nothing at this location
				}
				for k := 0; k < nv; k++ {
					v := pick()
					switch parts[0] {
					case "param":
						if len(pnames) < 4 { // (a route has a handful of path parameters, not dozens)
							pnames = append(pnames, []string{parts[1], parts[1], "other"}[rng.Intn(3)])
							pvals = append(pvals, v)
						}
					case "query":
						q.Add(parts[1], v)
					case "form":
						form.Add(parts[1], v)
						method = http.MethodPost
					case "cookie":
						if k == 0 && rng.Intn(8) == 0 {
							// a browser that sends many unrelated cookies in front of the key cookie
							for u := 15 + rng.Intn(12); u > 0; u-- {
								cookies = append(cookies, &http.Cookie{Name: fmt.Sprintf("c%d", u), Value: "x"})
							}
							dist["keyauth_many_unrelated_cookies"]++
						}
						nm := parts[1]
						if rng.Intn(4) == 0 {
							nm = "other"
						}
						if v == "valid-key " {
							v = "valid-key"
						}
						cookies = append(cookies, &http.Cookie{Name: nm, Value: v})
					case "header":
						pfx := ""
						if len(parts) > 2 {
							pfx = parts[2]
						} else if parts[1] == "Authorization" {
							pfx = authPfx
						}
						switch rng.Intn(6) {
						case 0:
							pfx = strings.ToLower(pfx)
						case 1:
							pfx = "Basic "
						case 2:
							pfx = strings.TrimSuffix(pfx, " ")
						}
						hdr.Add(parts[1], pfx+v)
					}
				}
			}
			junk := ""
			if method == http.MethodPost && rng.Intn(5) == 0 {
				// a query string net/url complains about (a semicolon, a bad escape) next to a perfectly good form body
				junk = []string{"a=1;b=2", "a=%zz", "x;y"}[rng.Intn(3)]
				dist["keyauth_form_with_unparsable_query"]++
			}
			build := func() *http.Request {
				target := "/"
				if len(q) > 0 {
					target += "?" + q.Encode()
				}
				if junk != "" {
					if len(q) > 0 {
						target += "&" + junk
					} else {
						target += "?" + junk
					}
				}
				var r *http.Request
				if method == http.MethodPost {
					r = httptest.NewRequest(method, target, strings.NewReader(form.Encode()))
					r.Header.Set("Content-Type", "application/x-www-form-urlencoded")
				} else {
					r = httptest.NewRequest(method, target, nil)
				}
				for k, vs := range hdr {
					for _, v := range vs {
						r.Header.Add(k, v)
					}
				}
				for _, ck := range cookies {
					r.AddCookie(ck)
				}
				return r
			}
			req := build()
			probe := build() // identical request to read what is present at each location
			probe.ParseMultipartForm(32 << 20)
			c := recycledContext(e, req, httptest.NewRecorder())
			c.SetParamNames(pnames...)
			c.SetParamValues(pvals...)
			kcalls, ranK, deniedK = nil, false, 0
			code := -1
			panicked := false
			func() {
				defer func() {
					if r := recover(); r != nil {
						panicked = true
					}
				}()
				if err := kmw(c); err != nil {
					if he, isHE := err.(*echo.HTTPError); isHE {
						code = he.Code
					} else {
						code = 0
					}
				} else if deniedK != 0 {
					code = deniedK
				}
			}()
			// what is literally present per configured lookup (prefix removed), for model and reference
			var lks []Sx
			var present []string
			full := true
			seenKeys := map[string]bool{}
			for _, src := range strings.Split(lk, ",") {
				parts := strings.SplitN(src, ":", 3)
				switch parts[0] {
				case "param":
					var vs []string
					for i, nm := range pnames {
						if nm == parts[1] {
							vs = append(vs, pvals[i])
						}
					}
					lks = append(lks, L(I(1), LS(vs)))
					present = append(present, vs...)
					full = full && len(vs) <= 20
				case "query":
					vs := probe.URL.Query()[parts[1]]
					lks = append(lks, L(I(1), LS(vs)))
					present = append(present, vs...)
					full = full && len(vs) <= 20
				case "form":
					vs := probe.Form[parts[1]]
					lks = append(lks, L(I(1), LS(vs)))
					present = append(present, vs...)
					full = full && len(vs) <= 20
				case "cookie":
					var cs []Sx
					for _, ck := range probe.Cookies() {
						cs = append(cs, L(S(ck.Name), S(ck.Value)))
						if ck.Name == parts[1] {
							present = append(present, ck.Value)
						}
					}
					// (echo stops collecting at the first cookie of that name at position 20 or later: with several key cookies
					// among more than 20 cookies a later one may go unseen; a single key cookie is found wherever it stands)
					nkey := 0
					for _, ck := range probe.Cookies() {
						if ck.Name == parts[1] {
							nkey++
						}
					}
					full = full && (len(cs) <= 20 || nkey <= 1)
					lks = append(lks, L(I(2), S(parts[1]), L(cs...)))
				case "header":
					pfx := ""
					if len(parts) > 2 {
						pfx = parts[2]
					} else if parts[1] == "Authorization" {
						pfx = authPfx
					}
					vs := probe.Header.Values(parts[1])
					lks = append(lks, L(I(0), S(pfx), LS(vs)))
					full = full && len(vs) <= 20
					for _, v := range vs {
						if pfx == "" {
							present = append(present, v)
						} else if len(v) > len(pfx) && strings.EqualFold(v[:len(pfx)], pfx) {
							present = append(present, v[len(pfx):])
						}
					}
				}
			}
			wantRan := false
			var tbl []Sx
			for _, k := range present {
				okv, err := kval(k)
				if okv && err == nil {
					wantRan = true
				}
				if !seenKeys[k] {
					seenKeys[k] = true
					tbl = append(tbl, L(S(k), I(verd(okv, err))))
				}
			}
			ok, why := true, ""
			if panicked {
				ok, why = false, "KeyAuth panicked"
			}
			if ranK && !wantRan {
				ok, why = false, fmt.Sprintf("handler ran although no value present at %q is accepted by the validator (present=%q, validator asked about %q)", lk, present, kcalls)
			}
			if !ranK && wantRan && full {
				ok, why = false, fmt.Sprintf("an accepted key is present at %q (present=%q) but the handler did not run (code %d)", lk, present, code)
			}
			for _, k := range kcalls {
				if !seenKeys[k] {
					ok, why = false, fmt.Sprintf("validator asked about %q which is not present in the request (present=%q)", k, present)
				}
			}
			out := code
			if ranK {
				out = -1
			}
			in := L(I(1), L(lks...), L(tbl...))
			cs := Case{In: in, Out: L(I(out), LS(kcalls)), Ok: ok, Why: why,
				Human: fmt.Sprintf("KeyAuth lookup=%q %s query=%q form=%q headers=%q cookies=%v -> ran=%v code=%d validator-calls=%q", lk, method, q, form, hdr, cookies, ranK, code, kcalls)}
			if len(present) > 1 || prevAccepted {
				cs.Key = Show(in)
			}
			prevAccepted = ranK
			dist["keyauth_requests"]++
			if ranK {
				dist["keyauth_accepted"]++
			}
			emit(cs)
		}
	}
}

// c13FS: a file system whose every name is a small regular file; opening one reports that the (file-serving) handler ran
type c13FS func()

var c13Files = fstest.MapFS{"f": &fstest.MapFile{Data: []byte("protected")}}

func (f c13FS) Open(name string) (iofs.File, error) {
	f()
	return c13Files.Open("f")
}
