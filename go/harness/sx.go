package main

import (
	"encoding/hex"
	"fmt"
	"math/big"
	"net/http"
	"strconv"
	"strings"
	"syscall"

	"github.com/labstack/echo/v4"
)

// Sx is the exchange term: integer, byte string or list (see coq/theories/Base/Sx.v).
type Sx interface{ write(sb *strings.Builder) }

type sxInt struct{ v *big.Int }
type sxStr struct{ s string }
type sxList struct{ l []Sx }

func I(n int) Sx        { return sxInt{big.NewInt(int64(n))} }
func I64(n int64) Sx    { return sxInt{big.NewInt(n)} }
func U64(n uint64) Sx   { return sxInt{new(big.Int).SetUint64(n)} }
func Big(n *big.Int) Sx { return sxInt{n} }
func B(b bool) Sx {
	if b {
		return I(1)
	}
	return I(0)
}
func S(s string) Sx { return sxStr{s} }
func L(xs ...Sx) Sx { return sxList{xs} }
func LS(ss []string) Sx {
	l := make([]Sx, len(ss))
	for i, s := range ss {
		l[i] = S(s)
	}
	return sxList{l}
}

func (x sxInt) write(sb *strings.Builder) {
	if x.v.IsInt64() && x.v.Int64() < (1<<61) && x.v.Int64() > -(1<<61) {
		sb.WriteString(strconv.FormatInt(x.v.Int64(), 10))
		return
	}
	if x.v.Sign() < 0 {
		sb.WriteString("-0x")
		sb.WriteString(new(big.Int).Neg(x.v).Text(16))
	} else {
		sb.WriteString("0x")
		sb.WriteString(x.v.Text(16))
	}
}
func (x sxStr) write(sb *strings.Builder) {
	sb.WriteByte('#')
	sb.WriteString(hex.EncodeToString([]byte(x.s)))
}
func (x sxList) write(sb *strings.Builder) {
	sb.WriteByte('(')
	for i, e := range x.l {
		if i > 0 {
			sb.WriteByte(' ')
		}
		e.write(sb)
	}
	sb.WriteByte(')')
}

func Show(x Sx) string {
	var sb strings.Builder
	x.write(&sb)
	return sb.String()
}

// recycledContext hands out the instance's context the way Echo.ServeHTTP does: ONE context per instance,
// Reset for every request - so whatever an earlier request left behind on it (query cache, store, path,
// handler, response) would be seen by the next one if Reset missed it.
var recycled = map[*echo.Echo]echo.Context{}

func recycledContext(e *echo.Echo, req *http.Request, w http.ResponseWriter) echo.Context {
	c, ok := recycled[e]
	if !ok {
		if len(recycled) > 256 {
			recycled = map[*echo.Echo]echo.Context{} // instances of finished cases
		}
		c = e.NewContext(req, w)
		recycled[e] = c
		return c
	}
	c.Reset(req, w)
	return c
}

// reservedDeadAddr returns the address of a TCP port that refuses connections and CANNOT be taken by anybody else while
// the harness runs: a socket bound to it but never listening (a closed listener's port can be handed to another process
// on a busy machine, which then answers in the dead target's place).
func reservedDeadAddr() string {
	fd, err := syscall.Socket(syscall.AF_INET, syscall.SOCK_STREAM, 0)
	if err != nil {
		panic(err)
	}
	if err := syscall.Bind(fd, &syscall.SockaddrInet4{Port: 0, Addr: [4]byte{127, 0, 0, 1}}); err != nil {
		panic(err)
	}
	sa, err := syscall.Getsockname(fd)
	if err != nil {
		panic(err)
	}
	return fmt.Sprintf("127.0.0.1:%d", sa.(*syscall.SockaddrInet4).Port) // (the descriptor stays open until the process ends)
}
