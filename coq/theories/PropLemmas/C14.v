(* Proofs of the short corollaries stated in Props/C14.v (kept out of the statement file). *)
From Coq Require Import List ZArith.
From Echo Require Import Base.GoLite Gen.Src_bodylimit Gen.Src_bodylimit_fn Mw.BodyLimit Mw.BodyLimitProofs Mw.BodyLimitSrc.
Import ListNotations.
Import ListNotations.
Open Scope Z_scope.

Lemma C14_bound_l : forall L rs, 0 <= L -> nonneg rs -> before413 (reads L 0 rs) <= L.
Proof. intros L rs HL Hn. pose proof (bound L rs 0 ltac:(reflexivity) Hn). 
       rewrite Z.max_r in H by exact HL. exact H. Qed.

Lemma C14_no_clean_eof_l : forall L rs, nonneg rs ->
  forall pre n post, reads L 0 rs = pre ++ (n, REOF) :: post -> delivered pre + n <= L.
Proof. intros L rs Hn pre n post H.
       pose proof (eof_means_small L rs 0 ltac:(reflexivity) Hn pre n post H). exact H0. Qed.

Lemma C14_small_unchanged_l : forall L rs, nonneg rs -> total rs <= L ->
  reads L 0 rs = map (fun r => (fst r, lift (snd r))) rs.
Proof. intros L rs Hn Ht. apply small_unchanged; [reflexivity|exact Hn|exact Ht]. Qed.

