(* The statement-level translation of MethodNotAllowedHandler (echo.go) and of the closure optionsMethodHandler returns
   (router.go) (Gen/Src_allowhandlers.v, regenerated on every run, language Base/GoLite.v): the 405 answer carries, as its Allow
   header, exactly the value the router left in the context (when it is a non-empty string - otherwise no Allow header is set)
   and always is ErrMethodNotAllowed; the automatic OPTIONS answer adds exactly the Allow value it was built with and is a 204
   through NoContent.  The value itself is the node's allowHeader, whose truthfulness is C03_allow_truthful.  (C03) *)
From Coq Require Import List ZArith Bool String.
From Echo Require Import Base.GoLite Gen.Src_allowhandlers.
Import ListNotations.
Open Scope Z_scope.

Ltac golite := repeat (cbn [exec exec_s eval get put assign locals fields events inputs String.eqb Ascii.eqb Bool.eqb
                            map tl app negb andb orb fst snd]; rewrite ?truthy_b2z).
Lemma nb2z (b : bool) : negb ((if b then 1 else 0) =? 0) = b.
Proof. destruct b; reflexivity. Qed.

Theorem C03_source_method_not_allowed : forall (sym : string -> Z) (allow ok : Z),
  let '(st', ret) := run sym src_method_not_allowed_handler_results src_method_not_allowed_handler
                       {| locals := [("c", 0)]; fields := []; events := []; inputs := [[allow; ok]] |} in
  ret = [sym "ErrMethodNotAllowed"] /\
  events st' = ("c.Get(ContextKeyHeaderAllow).(string)", []) ::
               (if negb (ok =? 0) && negb (allow =? sym """""") then [("c.Response().Header().Set", [sym "HeaderAllow"; allow])] else []).
Proof.
  intros sym allow ok. unfold run, src_method_not_allowed_handler, src_method_not_allowed_handler_results.
  golite. unfold truthy, b2z. rewrite ?nb2z.
  destruct (ok =? 0); cbn [negb andb]; golite; [split; reflexivity|].
  destruct (allow =? sym """"""); cbn [negb]; golite; split; reflexivity.
Qed.
Print Assumptions C03_source_method_not_allowed.

Theorem C03_source_options_responder : forall (sym : string -> Z),
  let '(st', ret) := run sym src_options_method_handler_results src_options_method_handler
                       {| locals := [("c", 0)]; fields := []; events := []; inputs := [] |} in
  ret = [sym "result of c.NoContent"] /\
  events st' = [("c.Response().Header().Add", [sym "HeaderAllow"; sym "allowMethods"]); ("c.NoContent", [sym "http.StatusNoContent"])].
Proof. intro sym. split; reflexivity. Qed.
Print Assumptions C03_source_options_responder.
