(* C10 — configured client-IP extraction cannot be steered by forgeable headers.
   Statements only; proofs in Net/XffProofs.v.  [parse] is the net.ParseIP oracle (bytes after
   To4 + ip.String()), [c] the trust configuration; entries are what the header lines denote
   after Join/Split on "," , TrimSpace and bracket stripping, with the peer appended. *)
From Coq Require Import List Bool NArith.
From Echo Require Import Base.Sx Net.IP Net.Xff Net.XffProofs.
Import ListNotations.

(* direct extractor: result independent of all headers *)
Theorem C10_direct : forall parse c xffl xffl' xreal xreal' direct,
  real_ip parse c 0 xffl xreal direct = real_ip parse c 0 xffl' xreal' direct.
Proof. exact direct_ignores_headers. Qed.
Print Assumptions C10_direct.

(* X-Real-IP extractor: header used iff non-empty, peer trusted and header parses *)
Theorem C10_realip : forall parse c hdr direct,
  real_ip_hdr parse c hdr direct =
    if (match hdr with [] => false | _ => true end) && trusted parse c direct &&
       (match parse (strip_brackets hdr) with Some _ => true | None => false end)
    then strip_brackets hdr else direct.
Proof. exact real_ip_hdr_spec. Qed.
Print Assumptions C10_realip.

(* X-Forwarded-For: the right-most entry (peer last) that is untrusted or unparsable decides:
   its canonical address, or the peer address if it does not parse *)
Theorem C10_xff_rightmost : forall parse c lines direct pre e suf,
  lines <> [] -> xff_entries lines direct = pre ++ e :: suf ->
  decisive parse c e = true -> forallb (trusted parse c) suf = true ->
  xff parse c lines direct = verdict parse e direct.
Proof. exact xff_rightmost. Qed.
Print Assumptions C10_xff_rightmost.

(* anti-spoofing: entries to the left of the decisive one never change the result *)
Theorem C10_xff_prefix_irrelevant : forall parse c lines lines' direct pre pre' e suf,
  lines <> [] -> lines' <> [] ->
  xff_entries lines direct = pre ++ e :: suf -> xff_entries lines' direct = pre' ++ e :: suf ->
  decisive parse c e = true -> forallb (trusted parse c) suf = true ->
  xff parse c lines direct = xff parse c lines' direct.
Proof. exact xff_prefix_irrelevant. Qed.
Print Assumptions C10_xff_prefix_irrelevant.

(* an untrusted peer decides alone *)
Theorem C10_xff_untrusted_peer : forall parse c lines lines' direct,
  decisive parse c (clean direct) = true -> lines <> [] -> lines' <> [] ->
  xff parse c lines direct = xff parse c lines' direct.
Proof. exact xff_untrusted_peer. Qed.
Print Assumptions C10_xff_untrusted_peer.

(* every hop including the peer trusted: the left-most entry (documented best effort) *)
Theorem C10_xff_all_trusted : forall parse c lines direct,
  lines <> [] -> forallb (trusted parse c) (xff_entries lines direct) = true ->
  xff parse c lines direct = hd direct (xff_entries lines direct).
Proof. exact xff_all_trusted. Qed.
Print Assumptions C10_xff_all_trusted.

(* the result is a valid IP literal whenever the peer address is (given that the canonical
   form ip.String() of a parsed address parses again) *)
Theorem C10_xff_valid : forall parse c,
  (forall e a, parse e = Some a -> parse (snd a) <> None) ->
  forall lines direct, parse direct <> None -> parse (clean direct) <> None ->
  parse (xff parse c lines direct) <> None.
Proof. exact xff_valid. Qed.
Print Assumptions C10_xff_valid.

Theorem C10_realip_valid : forall parse c hdr direct,
  parse direct <> None -> parse (real_ip_hdr parse c hdr direct) <> None.
Proof. exact real_ip_hdr_valid. Qed.
Print Assumptions C10_realip_valid.

(* RFC ranges for every address: 10/8, 172.16/12, 192.168/16; fc00::/7; 127/8; 169.254/16; fe80::/10 *)
Theorem C10_private_v4_rfc : forall b0 b1 b2 b3, (b0 < 256)%N -> (b1 < 256)%N ->
  is_private [b0; b1; b2; b3] = rfc1918 b0 b1.
Proof. exact private_v4_rfc. Qed.
Print Assumptions C10_private_v4_rfc.

Theorem C10_private_v6_rfc : forall a : ip, List.length a = 16%nat -> (nthb a 0 < 256)%N ->
  is_private a = ((nthb a 0 =? 252) || (nthb a 0 =? 253))%N.
Proof. exact private_v6_rfc. Qed.
Print Assumptions C10_private_v6_rfc.

Theorem C10_link_local_v6 : forall b0 b1 r, List.length r = 14%nat -> (b1 < 256)%N ->
  is_link_local (b0 :: b1 :: r) = ((b0 =? 254) && (128 <=? b1) && (b1 <=? 191))%N.
Proof. exact link_local_v6. Qed.
Print Assumptions C10_link_local_v6.

(* ---- the extractor closures themselves, from their statement-level translation (Gen/Src_ipextract.v, re-translated from ip.go
   on every run): for every header content, peer, trust configuration and ParseIP they return the model's [real_ip_hdr] / [xff] -
   the functions the theorems above are about.  ParseIP accepting no surrounding blanks is what lets the source's final
   TrimSpace(ips[0]) be the cleaned left-most entry. *)
From Coq Require Import ZArith.
From Echo Require Import Base.GoLoop Gen.Src_ipextract Net.IpSrc.
Theorem C10_source_realip_extractor : forall parse c xreal direct lines,
  snd (GoLoop.run isym (ipred parse c direct) src_realip_extractor_results src_realip_extractor (start_r lines xreal)) =
  [VS (real_ip_hdr parse c xreal direct)].
Proof. exact IpSrc.C10_source_realip_extractor. Qed.
Print Assumptions C10_source_realip_extractor.
Theorem C10_source_xff_extractor : forall parse c lines xreal direct,
  (forall s a, parse s = Some a -> trim_space s = s) ->
  snd (GoLoop.run isym (ipred parse c direct) src_xff_extractor_results src_xff_extractor (start_x lines xreal)) =
  [VS (xff parse c lines direct)].
Proof. exact IpSrc.C10_source_xff_extractor. Qed.
Print Assumptions C10_source_xff_extractor.
