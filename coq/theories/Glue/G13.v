From Coq Require Import List ZArith Bool.
From Echo Require Import Base.Sx Mw.Auth.
Import ListNotations.
Open Scope Z_scope.
(* input basic: (0 auth (decoded-ok decoded) ((user pass verdict) ...))      verdict 0 false 1 true 2 err
   input key:   (1 (lookup ...) ((key verdict) ...)); lookup: (0 prefix (value ...)) header, (1 (value ...)) query/form,
                                                                (2 name ((n v) ...)) cookie
   output: (code calls)   code: -1 ran, 0 validator error, else status *)
Definition dec_v (z : Z) : vres := match z with 1 => VTrue | 2 => VErr | _ => VFalse end.
Fixpoint lookup2 (tbl : list sx) (u p : str) : vres :=
  match tbl with
  | [] => VFalse
  | t :: r => if str_eqb (as_str (nth_sx 0 t)) u && str_eqb (as_str (nth_sx 1 t)) p then dec_v (as_Z (nth_sx 2 t)) else lookup2 r u p
  end.
Fixpoint lookup1 (tbl : list sx) (k : str) : vres :=
  match tbl with
  | [] => VFalse
  | t :: r => if str_eqb (as_str (nth_sx 0 t)) k then dec_v (as_Z (nth_sx 1 t)) else lookup1 r k
  end.
Definition dec_lookup (x : sx) : lookup :=
  match as_Z (nth_sx 0 x) with
  | 0 => LHeader (as_str (nth_sx 1 x)) (map as_str (as_list (nth_sx 2 x)))
  | 1 => LValues (map as_str (as_list (nth_sx 1 x)))
  | _ => LCookie (as_str (nth_sx 1 x)) (map (fun c => (as_str (nth_sx 0 c), as_str (nth_sx 1 c))) (as_list (nth_sx 2 x)))
  end.
Definition enc_out (o : outcome) : sx := match o with Ran => SZ (-1) | Rejected c => of_nat c end.
Definition run_sx (x : sx) : sx :=
  match as_Z (nth_sx 0 x) with
  | 0 =>
    let d := nth_sx 2 x in
    let decode := fun _ : str => if as_bool (nth_sx 0 d) then Some (as_str (nth_sx 1 d)) else None in
    let '(o, calls) := basic_auth decode (lookup2 (as_list (nth_sx 3 x))) (as_str (nth_sx 1 x)) in
    SL [enc_out o; SL (map (fun c => SL [SS (fst c); SS (snd c)]) calls)]
  | _ =>
    let '(o, calls) := key_auth (lookup1 (as_list (nth_sx 2 x))) (map dec_lookup (as_list (nth_sx 1 x))) in
    SL [enc_out o; SL (map SS calls)]
  end.
