"""Orchestrator: builds the Coq development, the extracted model runners and the Go harness
against /repo's current working tree, runs the correspondence, evaluates the verdict and
writes evidence.  See DESIGN.md section 2.4."""
import fcntl, hashlib, json, os, re, shutil, subprocess, sys, time

ROOT = os.path.dirname(os.path.dirname(os.path.abspath(__file__)))
COQ = os.path.join(ROOT, "coq")
OCAML = os.path.join(ROOT, "ocaml")
GO = os.path.join(ROOT, "go")
OUT = os.path.join(ROOT, "out")
EVID = os.path.join(ROOT, "evidence")
REPO = os.environ.get("VERIF_REPO", "/repo")

sys.path.insert(0, os.path.join(ROOT, "py"))
from propcfg import PROPS, AXIOM_WHITELIST, TRUSTED_BASE_COMMON   # noqa: E402
import classify                                                    # noqa: E402

GOENV = dict(os.environ, GOFLAGS="-mod=mod", GOPROXY="off", GOSUMDB="off", GOTOOLCHAIN="local",
             CGO_ENABLED="0")

FORBIDDEN = re.compile(r"\b(Admitted|admit|Axiom|Axioms|Parameter|Parameters|Conjecture|Admit Obligations|"
                       r"Unset Guard Checking|Unset Positivity Checking|Unset Universe Checking|bypass_check|"
                       r"native_compute)\b")


def sh(cmd, cwd=None, timeout=1800, env=None, inp=None):
    try:
        p = subprocess.run(cmd, cwd=cwd, env=env, input=inp, stdout=subprocess.PIPE, stderr=subprocess.STDOUT,
                           timeout=timeout, shell=isinstance(cmd, str), text=True)
        return p.returncode, p.stdout
    except subprocess.TimeoutExpired as e:
        return 124, (e.stdout or "") + "\n[timeout after %ss]" % timeout


class Lock:
    def __enter__(self):
        self.f = open(os.path.join(ROOT, ".lock"), "w")
        fcntl.flock(self.f, fcntl.LOCK_EX)
        return self

    def __exit__(self, *a):
        fcntl.flock(self.f, fcntl.LOCK_UN)
        self.f.close()


# ------------------------------------------------------------------ sx text
def sx_parse(s):
    pos = 0
    n = len(s)

    def term():
        nonlocal pos
        while pos < n and s[pos] == " ":
            pos += 1
        c = s[pos]
        if c == "(":
            pos += 1
            items = []
            while True:
                while pos < n and s[pos] == " ":
                    pos += 1
                if s[pos] == ")":
                    pos += 1
                    return items
                items.append(term())
        if c == "#":
            st = pos + 1
            pos = st
            while pos < n and s[pos] in "0123456789abcdef":
                pos += 1
            return ("s", s[st:pos])
        st = pos
        while pos < n and s[pos] not in " ()":
            pos += 1
        return int(s[st:pos], 0)
    return term()


def sx_coq(t):
    if isinstance(t, list):
        return "SL [" + "; ".join(sx_coq(x) for x in t) + "]"
    if isinstance(t, tuple):
        return 'SS (hex "%s")' % t[1]
    return "SZ (%d)" % t


# ------------------------------------------------------------------ builds
def grep_gate():
    bad = []
    for d, _, fs in os.walk(os.path.join(COQ, "theories")):
        for f in fs:
            if f.endswith(".v"):
                p = os.path.join(d, f)
                txt = re.sub(r"\(\*.*?\*\)", "", open(p).read(), flags=re.S)
                for m in FORBIDDEN.finditer(txt):
                    bad.append("%s: %s" % (os.path.relpath(p, ROOT), m.group(0)))
    return bad


def ensure_makefile():
    mk = os.path.join(COQ, "Makefile")
    cp = os.path.join(COQ, "_CoqProject")
    if not os.path.exists(mk) or os.path.getmtime(mk) < os.path.getmtime(cp):
        rc, out = sh("coq_makefile -f _CoqProject -o Makefile", cwd=COQ)
        if rc != 0:
            raise RuntimeError("coq_makefile failed:\n" + out)
    os.makedirs(os.path.join(COQ, "extracted"), exist_ok=True)


def go_build():
    shutil.copy(os.path.join(REPO, "go.sum"), os.path.join(GO, "go.sum"))
    gm = os.path.join(GO, "go.mod")
    txt = open(gm).read()
    want = "replace github.com/labstack/echo/v4 => %s" % REPO
    new = re.sub(r"replace github.com/labstack/echo/v4 => \S+", want, txt)
    if new != txt:
        open(gm, "w").write(new)
    rc, out = sh("go build -tags verif -o bin_harness ./harness && go build -o bin_gen ./gen", cwd=GO, env=GOENV,
                 timeout=900)
    return rc, out


def gen_sources():
    """Run the go/ast translator over /repo; returns {genfile: error-or-None}."""
    gdir = os.path.join(COQ, "theories", "Gen")
    tmp = os.path.join(OUT, "gen_tmp")
    shutil.rmtree(tmp, ignore_errors=True)
    os.makedirs(tmp, exist_ok=True)
    rc, out = sh([os.path.join(GO, "bin_gen"), "-repo", REPO, "-out", tmp], timeout=120)
    status = {}
    try:
        rep = json.load(open(os.path.join(tmp, "report.json")))
    except Exception:
        rep = {}
    for f in sorted(os.listdir(gdir)):
        if not f.endswith(".v"):
            continue
        err = rep.get(f, "translator did not run: " + out[-300:] if rc != 0 else None)
        if isinstance(err, str) and err:
            status[f] = err
            continue
        newp = os.path.join(tmp, f)
        if not os.path.exists(newp):
            status[f] = "translator produced no " + f
            continue
        new = open(newp).read()
        oldp = os.path.join(gdir, f)
        if new != open(oldp).read():
            open(oldp, "w").write(new)
        status[f] = None
    return status


def coq_build(prop, cfg):
    """make the model/glue/extraction of the property; then compile its Props file with coqc
    capturing Print Assumptions.  Returns dict."""
    ensure_makefile()
    num = prop[1:]
    targets = ["theories/Glue/G%s.vo" % num, "theories/Extract/E%s.vo" % num]
    rc, out = sh(["timeout", "1500", "make", "-j16"] + targets, cwd=COQ, timeout=1600)
    res = {"model_ok": rc == 0, "model_log": out[-3000:]}
    # dependencies of the Props file (proof files)
    # (the whole development is built by --setup; what is rebuilt here are the files that depend on regenerated sources.
    # A proof that does not finish within 10 minutes counts as broken - a failing proof search must not stall the check.)
    rc2, out2 = sh(["timeout", "600", "make", "-j16", "theories/Props/%s.vo" % prop], cwd=COQ, timeout=700)
    # always re-run coqc on the Props file to capture Print Assumptions (1-2 s)
    rc3, out3 = sh(["timeout", "600", "coqc", "-Q", "theories", "Echo", "theories/Props/%s.v" % prop], cwd=COQ,
                   timeout=700)
    src = open(os.path.join(COQ, "theories", "Props", prop + ".v")).read()
    src_nc = re.sub(r"\(\*.*?\*\)", "", src, flags=re.S)
    thms = re.findall(r"^\s*(?:Theorem|Corollary)\s+(\w+)", src_nc, flags=re.M)
    printed = re.findall(r"Print Assumptions\s+(\w+)", src_nc)
    closed = out3.count("Closed under the global context")
    axioms = []
    for blk in re.findall(r"Axioms:\n((?:.+\n?)+?)(?=\n\S|\Z)", out3):
        for line in blk.splitlines():
            m = re.match(r"^(\S+)\s*:", line)
            if m:
                axioms.append(m.group(1))
    bad_axioms = sorted(set(a for a in axioms if a not in AXIOM_WHITELIST))
    nblocks = closed + out3.count("Axioms:")
    res.update({"theorems": thms, "printed": printed, "props_ok": rc3 == 0 and rc2 == 0,
                "props_log": (out2[-1500:] if rc2 != 0 else "") + out3[-3000:],
                "closed": closed, "axioms": sorted(set(axioms)), "bad_axioms": bad_axioms,
                "discharged": nblocks if (rc3 == 0 and not bad_axioms) else 0,
                "missing_print": sorted(set(thms) - set(printed))})
    return res


def run_conc(prop, seed, rounds):
    """concurrent stage: the harness built with the race detector runs the property's operations from many
    goroutines; returns {rc, scenarios, ops, failures, race, log}"""
    binp, detector = "bin_harness_race", True
    with Lock():
        rc, out = sh("go build -race -tags verif -o bin_harness_race ./harness", cwd=GO, env=dict(GOENV, CGO_ENABLED="1"), timeout=900)
    if rc != 0:
        # no cgo toolchain: the stage still runs (panics, impossible counts), only without the detector
        binp, detector = "bin_harness", False
    env = dict(GOENV, GORACE="halt_on_error=0 exitcode=66")
    p = subprocess.run([os.path.join(GO, binp), "-prop", prop, "-conc", "-seed", str(seed), "-n", str(rounds)],
                       cwd=GO, env=env, stdout=subprocess.PIPE, stderr=subprocess.PIPE, text=True, timeout=1800)
    res = {"rc": p.returncode, "scenarios": 0, "ops": 0, "failures": [], "race": "DATA RACE" in p.stderr, "dist": {}, "detector": detector,
           "log": p.stderr[:6000]}
    for line in p.stdout.splitlines():
        if line.startswith("{"):
            try:
                j = json.loads(line)
                res.update({"scenarios": j.get("scenarios", 0), "ops": j.get("ops", 0), "failures": j.get("failures") or [],
                            "dist": j.get("dist") or {}})
            except ValueError:
                pass
    if p.returncode != 0 and not res["failures"] and not res["race"]:
        res["failures"] = ["the concurrent stage ended with exit status %d: %s" % (p.returncode, p.stderr[-1500:])]
    return res


def coqchk(prop):
    """independent re-check of the compiled property file and everything it depends on (thorough tier);
    cached by the hash of the .vo files it covers"""
    vo = os.path.join(COQ, "theories", "Props", prop + ".vo")
    if not os.path.exists(vo):
        return {"ran": False, "ok": False, "log": "no " + vo}
    h = hashlib.sha256()
    for d, _, fs in sorted(os.walk(os.path.join(COQ, "theories"))):
        for f in sorted(fs):
            if f.endswith(".vo"):
                h.update(open(os.path.join(d, f), "rb").read())
    key = h.hexdigest()
    cache = os.path.join(OUT, "coqchk_%s.json" % prop)
    if os.path.exists(cache):
        c = json.load(open(cache))
        if c.get("key") == key:
            c["cached"] = True
            return c
    t0 = time.time()
    rc, out = sh(["timeout", "3000", "coqchk", "-silent", "-o", "-Q", "theories", "Echo", "Echo.Props." + prop], cwd=COQ, timeout=3100)
    axioms = []
    m = re.search(r"\* Axioms:(.*?)(\n\* |\Z)", out, flags=re.S)
    if m:
        axioms = [l.strip() for l in m.group(1).splitlines() if l.strip() and "<none>" not in l]
    res = {"ran": True, "ok": rc == 0, "key": key, "axioms": axioms, "wall_s": round(time.time() - t0, 1), "log": out[-1500:], "cached": False}
    json.dump(res, open(cache, "w"))
    return res


def ocaml_build(prop):
    num = prop[1:]
    ml = os.path.join(COQ, "extracted", "m%s.ml" % num)
    binp = os.path.join(OCAML, "bin_m%s" % num)
    drv = os.path.join(OCAML, "driver.ml")
    if not os.path.exists(ml):
        return 1, "no extracted model " + ml
    if os.path.exists(binp) and os.path.getmtime(binp) >= max(os.path.getmtime(ml), os.path.getmtime(drv)):
        return 0, ""
    bd = os.path.join(OCAML, "build", "m" + num)
    os.makedirs(bd, exist_ok=True)
    shutil.copy(ml, os.path.join(bd, "model.ml"))
    shutil.copy(ml + "i", os.path.join(bd, "model.mli"))
    shutil.copy(drv, os.path.join(bd, "driver.ml"))
    return sh("ocamlfind ocamlopt -w -a model.mli model.ml driver.ml -o %s" % binp, cwd=bd, timeout=600)


# ------------------------------------------------------------------ running
def run_harness(prop, seed, n, outdir, extra=None):
    shutil.rmtree(outdir, ignore_errors=True)
    os.makedirs(outdir, exist_ok=True)
    cmd = [os.path.join(GO, "bin_harness"), "-prop", prop, "-seed", str(seed), "-n", str(n), "-out", outdir]
    if extra:
        cmd += extra
    rc, out = sh(cmd, timeout=3000, env=dict(GOENV, GOMAXPROCS="8"))
    cases = []
    p = os.path.join(outdir, "cases.tsv")
    if os.path.exists(p):
        for i, line in enumerate(open(p, encoding="utf-8", errors="replace")):
            f = line.rstrip("\n").split("\t")
            if len(f) < 6:
                continue
            try:
                human = json.loads(f[5])
            except ValueError:
                rc = rc or 3          # a line cut short: the harness died while writing
                continue
            cases.append({"idx": i, "in": f[0], "out": f[1], "ok": f[2] == "1", "key": f[3], "why": f[4],
                          "human": human})
    try:
        dist = json.load(open(os.path.join(outdir, "dist.json")))
    except Exception:
        dist = {}
    return rc, out, cases, dist


def run_model(prop, cases, outdir):
    binp = os.path.join(OCAML, "bin_m%s" % prop[1:])
    inp = "".join(c["in"] + "\n" for c in cases)
    rc, out = sh(["timeout", "1500", binp], inp=inp, timeout=1600)
    lines = out.split("\n")
    if lines and lines[-1] == "":
        lines.pop()
    return rc, lines


def run_incoq(prop, cases, k, outdir):
    """kernel-evaluated sample: first k cases through vm_compute inside Coq."""
    num = prop[1:]
    sample = cases[:k]
    if not sample:
        return True, 0, ""
    body = ";\n  ".join("(%s, %s)" % (sx_coq(sx_parse(c["in"])), sx_coq(sx_parse(c["out"]))) for c in sample)
    d = os.path.join(outdir, "incoq")
    os.makedirs(d, exist_ok=True)
    v = os.path.join(d, "cases_%s.v" % prop)
    open(v, "w").write(
        "From Coq Require Import List ZArith String.\nFrom Echo Require Import Base.Sx Glue.G%s.\n"
        "Import ListNotations.\nOpen Scope Z_scope.\nOpen Scope string_scope.\n"
        "Definition cases : list (sx * sx) := [\n  %s].\n"
        "Definition M := Eval vm_compute in List.length (mismatches G%s.run_sx cases).\nPrint M.\n" % (num, body, num))
    rc, out = sh(["timeout", "900", "coqc", "-Q", os.path.join(COQ, "theories"), "Echo", v], cwd=d, timeout=1000)
    ok = rc == 0 and re.search(r"M = 0(%nat)?\s", out) is not None
    return ok, len(sample), out[-800:]


# ------------------------------------------------------------------ verdict
def load_known():
    p = os.path.join(ROOT, "known_findings.json")
    if os.path.exists(p):
        return json.load(open(p))
    return []


def write_replay(prop, n, payload):
    d = os.path.join(OUT, prop)
    os.makedirs(d, exist_ok=True)
    p = os.path.join(d, "replay-%d.json" % n)
    json.dump(payload, open(p, "w"), indent=1)
    return p


def check(prop, tier, seed):
    t0 = time.time()
    cfg = PROPS[prop]
    n = cfg["n_" + tier]
    outdir = os.path.join(OUT, prop, "run")
    notes = []
    broken = []          # names of theorems / correspondences / translators that no longer check
    with Lock():
        gate = grep_gate()
        rc, out = go_build()
        if rc != 0:
            print(out[-3000:])
            broken.append("harness-build: the Go harness no longer builds against /repo")
        gstat = gen_sources() if rc == 0 else {}
        for g in cfg.get("gen", []):
            if gstat.get(g):
                broken.append("translator:%s: %s" % (g, gstat[g]))
        cb = coq_build(prop, cfg)
        orc, oout = (1, "") if not cb["model_ok"] else ocaml_build(prop)
        chk = coqchk(prop) if (tier == "thorough" and cb["props_ok"]) else None
    if gate:
        broken.append("forbidden vernacular: " + "; ".join(gate[:5]))
    if not cb["props_ok"]:
        m = re.search(r'File "[^"]*", line (\d+)', cb["props_log"])
        broken.append("theorem: Props/%s.v (or a proof file it depends on) no longer compiles%s" %
                      (prop, " (line %s)" % m.group(1) if m else ""))
    if cb["bad_axioms"]:
        broken.append("assumptions outside the whitelist: " + ", ".join(cb["bad_axioms"]))
    if cb["missing_print"]:
        broken.append("theorems without Print Assumptions: " + ", ".join(cb["missing_print"]))
    if chk is not None and not chk["ok"]:
        broken.append("coqchk rejected Props/%s.vo or a file it depends on: %s" % (prop, chk["log"][-300:]))
    if not cb["model_ok"]:
        broken.append("model: Glue/Extract for %s no longer compiles" % prop)
    elif orc != 0:
        broken.append("model-runner build failed: " + oout[-500:])

    # ---- run implementation and model
    cases, dist, diffs, model_lines = [], {}, [], []
    if not any(b.startswith("harness-build") for b in broken):
        hrc, hout, cases, dist = run_harness(prop, seed, n, outdir)
        if hrc != 0:
            broken.append("harness crashed (rc=%d): %s" % (hrc, hout[-1500:]))
        if cb["model_ok"] and orc == 0 and cases:
            mrc, model_lines = run_model(prop, cases, outdir)
            if mrc != 0 or len(model_lines) != len(cases):
                broken.append("model runner failed (rc=%d, %d lines for %d cases)" % (mrc, len(model_lines), len(cases)))
            else:
                for c, m in zip(cases, model_lines):
                    c["model"] = m
                    if m != c["out"] and not c["key"].startswith("known:"):
                        diffs.append(c)
    incoq_n = 0
    if cb["model_ok"] and cases:
        k = cfg.get("incoq_" + tier, cfg.get("incoq", 100))
        plain = [c for c in cases if not c["key"].startswith("known:") and len(c["in"]) + len(c["out"]) < 6000]
        iok, incoq_n, iout = run_incoq(prop, plain, k, outdir)
        if not iok and not diffs:
            broken.append("in-Coq evaluation (vm_compute) of the model disagrees with the implementation or failed: " + iout[-300:])
    if diffs:
        broken.append("correspondence: model and implementation differ on %d of %d cases" % (len(diffs), len(cases)))

    # ---- predicate violations on the implementation
    known = [k for k in load_known() if k["property"] == prop and k.get("status") == "known"]
    viol = [c for c in cases if not c["ok"]]
    unlisted, known_hit = [], {}
    for c in viol:
        hit = None
        for k in known:
            if classify.matches(k, c):
                hit = k
                break
        if hit:
            known_hit.setdefault(hit["id"], (hit, c))
        else:
            unlisted.append(c)
    for kid, (k, c) in sorted(known_hit.items()):
        print("KNOWN-FINDING: property=%s %s" % (prop, k["what"]))

    violations = 0
    replay_n = 0
    searched = 0
    if unlisted:
        unlisted.sort(key=lambda c: len(c["in"]))
        c = unlisted[0]
        replay_n += 1
        p = write_replay(prop, replay_n, {"property": prop, "kind": "failing-input", "seed": seed, "n": n,
                                          "case_index": c["idx"], "why": c["why"], "input": c["in"],
                                          "impl": c["out"], "model": c.get("model"), "human": c["human"],
                                          "failing_cases_in_run": len(unlisted), "broken": broken,
                                          "replay_cmd": "./check %s --replay %s" % (prop, "out/%s/replay-%d.json" % (prop, replay_n))})
        print("VIOLATION property=%s replay=%s" % (prop, p))
        violations = len(unlisted)
    elif broken:
        # focused search for a failing input on the implementation (predicate only)
        found = None
        budget = cfg.get("search_s", 60 if tier == "quick" else 600)
        ts = time.time()
        s2 = seed
        seeds_tried = []
        # disagreeing cases first: they are the most likely to violate the predicate nearby
        while time.time() - ts < budget and not found:
            s2 = s2 * 7919 + 13
            seeds_tried.append(s2)
            hrc, hout, cs2, _ = run_harness(prop, s2 % (1 << 31), max(n, 2000) * 2, os.path.join(OUT, prop, "search"))
            searched += len(cs2)
            bad = [c for c in cs2 if not c["ok"] and not any(classify.matches(k, c) for k in known)]
            if bad:
                bad.sort(key=lambda c: len(c["in"]))
                found = (s2 % (1 << 31), max(n, 2000) * 2, bad[0])
            if hrc != 0 and not cs2:
                break
        replay_n += 1
        if found:
            fs, fn, c = found
            p = write_replay(prop, replay_n, {"property": prop, "kind": "failing-input", "seed": fs, "n": fn,
                                              "case_index": c["idx"], "why": c["why"], "input": c["in"],
                                              "impl": c["out"], "human": c["human"], "broken": broken})
            print("VIOLATION property=%s replay=%s" % (prop, p))
        else:
            first = diffs[0] if diffs else None
            p = write_replay(prop, replay_n, {"property": prop, "kind": "no-failing-input-found", "broken": broken,
                                              "seed": seed, "n": n, "searched_cases": searched,
                                              "first_disagreeing_case": None if not first else
                                              {"case_index": first["idx"], "input": first["in"], "impl": first["out"],
                                               "model": first.get("model"), "human": first["human"]},
                                              "props_log": cb["props_log"][-1500:], "model_log": "" if cb["model_ok"] else cb["model_log"][-1500:]})
            print("VIOLATION property=%s replay=%s no-failing-input-found" % (prop, p))
        violations = max(1, len(diffs))

    # ---- concurrent stage (validates the atomicity the sequential models assume)
    conc = None
    rounds = cfg.get("conc_" + tier, 0)
    if rounds and not any(b.startswith("harness-build") for b in broken):
        conc = run_conc(prop, seed, rounds)
        if conc["failures"] or conc["race"]:
            replay_n += 1
            what = conc["failures"][0] if conc["failures"] else "data race reported by the Go race detector"
            p = write_replay(prop, replay_n, {"property": prop, "kind": "failing-schedule", "seed": seed, "rounds": rounds,
                                              "why": what, "failures": conc["failures"], "race_detected": conc["race"],
                                              "race_report": conc["log"],
                                              "replay_cmd": "./check %s --replay out/%s/replay-%d.json" % (prop, prop, replay_n)})
            print("VIOLATION property=%s replay=%s" % (prop, p))
            violations += max(1, len(conc["failures"]))

    # ---- evidence
    keys = set(c["key"] for c in cases if c["key"] not in ("-", "") and not c["key"].startswith("known:"))
    samples = [{"input": c["in"][:600], "impl_observed": c["out"][:600], "readable": c["human"][:600]} for c in cases[:3]]
    ev = {
        "property_id": prop, "tier": tier, "seed": seed, "level": "proof",
        "coverage": {
            "obligations": len(cb["theorems"]), "discharged": min(cb["discharged"], len(cb["theorems"])) if not cb["missing_print"] else 0,
            "theorems": cb["theorems"], "axioms_reported": cb["axioms"] or ["Closed under the global context"],
            "checker_cmd": "cd /verif/coq && make theories/Props/%s.vo && coqc -Q theories Echo theories/Props/%s.v  (Coq 8.16.1; Print Assumptions under every theorem)" % (prop, prop),
            "trusted_base": TRUSTED_BASE_COMMON + cfg.get("trusted", []),
            "evaluations": len(cases), "distinct_nontrivial": len(keys), "rule": dist.get("rule", ""),
            "samples": samples, "traces_validated_against_impl": len(cases) - len(diffs) if model_lines else 0,
            "model_vs_impl_disagreements": len(diffs), "in_coq_vm_compute_cases": incoq_n,
            "predicate_failures_on_impl": len(viol), "known_findings_hit": sorted(known_hit.keys()),
            "input_distribution": dist.get("dist", {}), "search_cases": searched, "broken": broken,
            "gen_files": cfg.get("gen", []),
            "coqchk": None if chk is None else {k: chk[k] for k in ("ok", "axioms", "wall_s", "cached") if k in chk},
            "concurrent_stage": None if conc is None else {
                "what": "the same operations from 4-16 goroutines under the Go race detector; outcome compared with what every serial order gives",
                "scenarios": conc["scenarios"], "operations": conc["ops"], "failures": conc["failures"][:5],
                "race_detector_enabled": conc["detector"], "data_race_reported": conc["race"], "distribution": conc["dist"]},
        },
        "assumptions": cfg.get("assumptions", []),
        "wall_s": round(time.time() - t0, 2), "violations": violations,
    }
    os.makedirs(EVID, exist_ok=True)
    json.dump(ev, open(os.path.join(EVID, prop + ".json"), "w"), indent=1)
    print("%s tier=%s seed=%d theorems=%d/%d cases=%d nontrivial=%d diffs=%d pred_fail=%d known=%d wall=%.1fs" % (
        prop, tier, seed, ev["coverage"]["discharged"], len(cb["theorems"]), len(cases), len(keys), len(diffs),
        len(viol), len(known_hit), time.time() - t0))
    for b in broken:
        print("  broken:", b[:400])
    return 1 if violations else 0


def replay(prop, path):
    r = json.load(open(path))
    if r.get("kind") == "failing-schedule":
        with Lock():
            rc, out = go_build()
        conc = run_conc(prop, r["seed"], r["rounds"])
        print(json.dumps({k: conc[k] for k in ("scenarios", "ops", "failures", "race")}, indent=1))
        if conc["race"]:
            print(conc["log"][:3000])
        if conc["failures"] or conc["race"]:
            print("VIOLATION property=%s replay=%s" % (prop, path))
            return 1
        return 0
    if r.get("kind") != "failing-input":
        print(json.dumps(r, indent=1)[:4000])
        return 1
    with Lock():
        rc, out = go_build()
    hrc, hout, cases, _ = run_harness(prop, r["seed"], r["n"], os.path.join(OUT, prop, "replay"))
    for c in cases:
        if c["idx"] == r["case_index"]:
            print("input:", c["in"][:2000])
            print("impl :", c["out"][:2000])
            print("case :", c["human"][:2000])
            print("predicate:", "holds" if c["ok"] else "FAILS: " + c["why"])
            if not c["ok"]:
                print("VIOLATION property=%s replay=%s" % (prop, path))
                return 1
            return 0
    print("case not reproduced")
    return 1


def setup():
    os.makedirs(OUT, exist_ok=True)
    with Lock():
        bad = grep_gate()
        if bad:
            print("forbidden vernacular:", bad)
            return 1
        rc, out = go_build()
        if rc != 0:
            print(out)
            return 1
        st = gen_sources()
        for k, v in st.items():
            if v:
                print("translator:", k, v)
                return 1
        sh("rm -f Makefile Makefile.conf .Makefile.d", cwd=COQ)
        ensure_makefile()
        rc, out = sh("timeout 3000 make -j16", cwd=COQ, timeout=3100)
        print(out[-2500:])
        if rc != 0:
            return 1
        for prop in sorted(PROPS):
            rc, out = ocaml_build(prop)
            if rc != 0:
                print(prop, out)
                return 1
    print("setup ok")
    return 0


def main(argv):
    if argv and argv[0] == "--setup":
        return setup()
    prop = argv[0]
    tier = os.environ.get("VERIF_TIER", "quick")
    rp = None
    i = 1
    while i < len(argv):
        if argv[i] == "--tier":
            tier = argv[i + 1]
            i += 2
        elif argv[i] == "--replay":
            rp = argv[i + 1]
            i += 2
        else:
            i += 1
    if tier not in ("quick", "thorough"):
        tier = "quick"
    seed = int(os.environ.get("VERIF_SEED", "1") or 1)
    os.makedirs(OUT, exist_ok=True)
    if rp:
        return replay(prop, rp)
    return check(prop, tier, seed)
