(* Sx: the uniform data exchange format between the Go harness, the extracted model
   runner and in-Coq evaluation (cases.v).  Glue only: no theorem depends on it. *)
From Coq Require Import List ZArith Ascii String Bool.
Import ListNotations.
Open Scope Z_scope.

Notation str := (list ascii).

Inductive sx := SZ (z : Z) | SS (s : str) | SL (l : list sx).

Definition ascii_eqb (a b : ascii) : bool := Ascii.eqb a b.

Fixpoint str_eqb (a b : str) : bool :=
  match a, b with
  | [], [] => true
  | x :: a', y :: b' => Ascii.eqb x y && str_eqb a' b'
  | _, _ => false
  end.

Lemma str_eqb_eq a b : str_eqb a b = true <-> a = b.
Proof.
  revert b; induction a as [|x a IH]; destruct b as [|y b]; simpl; split; intro H;
    try reflexivity; try discriminate.
  - apply andb_true_iff in H as [H1 H2]. apply Ascii.eqb_eq in H1. apply IH in H2. congruence.
  - inversion H; subst. rewrite Ascii.eqb_refl. simpl. apply IH. reflexivity.
Qed.

Fixpoint sx_eqb (a b : sx) {struct a} : bool :=
  match a, b with
  | SZ x, SZ y => Z.eqb x y
  | SS x, SS y => str_eqb x y
  | SL x, SL y =>
      (fix go (x y : list sx) : bool :=
         match x, y with
         | [], [] => true
         | a :: x', b :: y' => sx_eqb a b && go x' y'
         | _, _ => false
         end) x y
  | _, _ => false
  end.

(* hex decoding for cases.v *)
Definition hexval (c : ascii) : N :=
  let n := N_of_ascii c in
  if (48 <=? n)%N && (n <=? 57)%N then (n - 48)%N
  else if (97 <=? n)%N && (n <=? 102)%N then (n - 87)%N
  else if (65 <=? n)%N && (n <=? 70)%N then (n - 55)%N else 0%N.

Fixpoint hex_list (s : str) : str :=
  match s with
  | a :: b :: t => ascii_of_N (hexval a * 16 + hexval b) :: hex_list t
  | _ => []
  end.
Definition hex (s : string) : str := hex_list (list_ascii_of_string s).
Definition lit (s : string) : str := list_ascii_of_string s.

(* decoders *)
Definition as_Z (x : sx) : Z := match x with SZ z => z | _ => 0 end.
Definition as_str (x : sx) : str := match x with SS s => s | _ => [] end.
Definition as_list (x : sx) : list sx := match x with SL l => l | _ => [] end.
Definition as_bool (x : sx) : bool := match x with SZ 0 => false | SZ _ => true | _ => false end.
Definition nth_sx (n : nat) (x : sx) : sx := nth n (as_list x) (SL []).
Definition of_bool (b : bool) : sx := SZ (if b then 1 else 0).
Definition of_nat (n : nat) : sx := SZ (Z.of_nat n).
Definition of_opt {A} (f : A -> sx) (o : option A) : sx :=
  match o with Some a => SL [f a] | None => SL [] end.

(* mismatch filter used by cases.v *)
Definition mismatches (run : sx -> sx) (cases : list (sx * sx)) : list (sx * sx * sx) :=
  flat_map (fun c => let r := run (fst c) in
                     if sx_eqb r (snd c) then [] else [(fst c, snd c, r)]) cases.
