From Coq Require Import List ZArith Bool Arith NArith.
From Echo Require Import Base.Sx Bind.BindData.
Import ListNotations.
(* type: (0 kind) scalar | (1 kind) slice | (2 (field ...)); kind 0 string 1 int; field: (settable anonymous ((src tag) ...) type)
   data: ((key (value ...)) ...)
   input: (type method params query body); body: (0) none | (1 data) form | (2) malformed form | (3) unsupported | (4 (write ...)) oracle | (5) oracle error
   output: (0 status) | (1 ((path...) (values...)) ...) final values per written path, in first-write order *)
Fixpoint dec_ty (fuel : nat) (x : sx) : ty :=
  match fuel with O => TScalar SString | S f =>
  let k := match as_Z (nth_sx 1 x) with 1%Z => SInt | 2%Z => SUint8 | 3%Z => SUint16 | 4%Z => SInt8 | _ => SString end in
  match as_Z (nth_sx 0 x) with
  | 0%Z => TScalar k
  | 1%Z => TSlice k
  | _ => TStruct (map (fun fx => Field (as_bool (nth_sx 0 fx)) (as_bool (nth_sx 1 fx))
                                       (map (fun t => (Z.to_nat (as_Z (nth_sx 0 t)), as_str (nth_sx 1 t))) (as_list (nth_sx 2 fx)))
                                       (dec_ty f (nth_sx 3 fx))) (as_list (nth_sx 1 x)))
  end end.
Definition dec_data (x : sx) : data := map (fun kv => (as_str (nth_sx 0 kv), map as_str (as_list (nth_sx 1 kv)))) (as_list x).
Definition dec_writes (x : sx) : list (path * list str) :=
  map (fun w => (map (fun i => Z.to_nat (as_Z i)) (as_list (nth_sx 0 w)), map as_str (as_list (nth_sx 1 w)))) (as_list x).
Definition dec_body (x : sx) : body :=
  match as_Z (nth_sx 0 x) with
  | 0%Z => BNone | 1%Z => BForm (dec_data (nth_sx 1 x)) | 2%Z => BMalformedForm | 3%Z => BUnsupported
  | 4%Z => BOracle (dec_writes (nth_sx 1 x)) | _ => BOracleError
  end.
Fixpoint dedup_paths (ws : list (path * list str)) (seen : list path) : list path :=
  match ws with
  | [] => []
  | (p, _) :: r => if existsb (fun q => if list_eq_dec Nat.eq_dec q p then true else false) seen then dedup_paths r seen
                   else p :: dedup_paths r (p :: seen)
  end.
Fixpoint path_leb (a b : path) : bool :=
  match a, b with
  | [], _ => true
  | _ :: _, [] => false
  | x :: a', y :: b' => if Nat.ltb x y then true else if Nat.ltb y x then false else path_leb a' b'
  end.
Fixpoint ins_path (p : path) (l : list path) : list path :=
  match l with [] => [p] | q :: r => if path_leb p q then p :: l else q :: ins_path p r end.
Definition sort_paths (l : list path) : list path := fold_right ins_path [] l.
(* map destinations: type (3 mode); output (2 ((key (value ...)) ...)) with keys in byte order, final values *)
Fixpoint str_le (a b : list Ascii.ascii) : bool :=
  match a, b with
  | [], _ => true
  | _ :: _, [] => false
  | x :: a', y :: b' => if N.ltb (Ascii.N_of_ascii x) (Ascii.N_of_ascii y) then true
                        else if N.ltb (Ascii.N_of_ascii y) (Ascii.N_of_ascii x) then false else str_le a' b'
  end.
Fixpoint ins_key (k : list Ascii.ascii) (l : list (list Ascii.ascii)) : list (list Ascii.ascii) :=
  match l with [] => [k] | q :: r => if str_eqb k q then l else if str_le k q then k :: l else q :: ins_key k r end.
Definition map_sx (x : sx) : sx :=
  let mode := match as_Z (nth_sx 1 (nth_sx 0 x)) with 1%Z => MAll | 3%Z => MIgnored | _ => MFirst end in
  match bind_map mode (as_str (nth_sx 1 x)) (dec_data (nth_sx 2 x)) (dec_data (nth_sx 3 x)) (dec_body (nth_sx 4 x)) with
  | MStatus c => SL [SZ 0; of_nat c]
  | MBound kvs => SL [SZ 2; SL (map (fun k => SL [SS k; SL (map SS (match map_final kvs k with Some v => v | None => [] end))])
                                   (fold_right ins_key [] (map fst kvs)))]
  end.
Definition headers_lit : list Ascii.ascii := map Ascii.ascii_of_nat [35; 72; 69; 65; 68; 69; 82; 83].   (* "#HEADERS": BindHeaders on its own *)
Definition run_sx (x : sx) : sx :=
  if Z.eqb (as_Z (nth_sx 0 (nth_sx 0 x))) 3 then map_sx x else
  match (if str_eqb (as_str (nth_sx 1 x)) headers_lit
         then match bind_data (dec_ty 8 (nth_sx 0 x)) (dec_data (nth_sx 2 x)) 3 with Writes w => Bound w | Error => Status 400 end
         else bind (dec_ty 8 (nth_sx 0 x)) (as_str (nth_sx 1 x)) (dec_data (nth_sx 2 x)) (dec_data (nth_sx 3 x)) (dec_body (nth_sx 4 x))) with
  | Status c => SL [SZ 0; of_nat c]
  | Bound ws => SL [SZ 1; SL (map (fun p => SL [SL (map of_nat p);
                                               SL (map SS (match final ws p with Some v => v | None => [] end))]) (sort_paths (dedup_paths ws [])))]
  end.
