package main

import (
	"bytes"
	"errors"
	"fmt"
	"io"
	"math/rand"
	"net/http"
	"net/http/httptest"
	"strings"

	"github.com/labstack/echo/v4"
	glog "github.com/labstack/gommon/log"
)

func init() {
	props["C06"] = &propRunner{gen: genC06, rule: "handler programs of 1-12 ops over {WriteHeader, Write, Flush, Before, After, JSON, JSONPretty, String, Blob, Stream, NoContent, Redirect} on echo.Response over a recording http.ResponseWriter+Flusher (some writes partially rejected by the writer); state compared after EVERY op; non-trivial = program with an op after commit that tries to change the status, or a flush before any write, or a partial write; distinct by op sequence"}
}

// recording writer with net/http semantics: first WriteHeader wins, Write/Flush imply 200
type c06Writer struct {
	hdr      http.Header
	status   int
	nbytes   int
	hdrCalls int
	log      *[]Sx
	accept   int // bytes accepted by the next Write (-1: all)
	flushes  int // Flush calls that reached THIS writer
}

var errC06Write = errors.New("c06: writer rejected bytes")

func (w *c06Writer) Header() http.Header { return w.hdr }
func (w *c06Writer) WriteHeader(c int) {
	w.hdrCalls++
	if w.status < 0 {
		w.status = c
	}
	*w.log = append(*w.log, L(I(1), I(c)))
}
func (w *c06Writer) Write(b []byte) (int, error) {
	if w.status < 0 {
		w.status = 200
	}
	k := len(b)
	var err error
	if w.accept >= 0 && w.accept < k {
		k = w.accept
		err = errC06Write
	}
	w.accept = -1
	w.nbytes += k
	*w.log = append(*w.log, L(I(2), I(k)))
	return k, err
}

// ReadFrom: offered by net/http's response writer; whoever copies through it writes to the same sink
func (w *c06Writer) ReadFrom(r io.Reader) (int64, error) {
	return io.Copy(struct{ io.Writer }{w}, r)
}
func (w *c06Writer) Flush() {
	w.flushes++
	if w.status < 0 {
		w.status = 200
	}
}

var c06Prev echo.Context

func genC06(rng *rand.Rand, n int, emit func(Case), dist map[string]int) {
	e := echo.New()
	e.Logger.SetOutput(new(bytes.Buffer))
	codes := []int{200, 201, 204, 301, 302, 308, 400, 404, 500, 503, 299, 309, 100}
	for it := 0; it < n; it++ {
		var evlog []Sx
		w := &c06Writer{hdr: http.Header{}, status: -1, log: &evlog, accept: -1}
		req := httptest.NewRequest(http.MethodGet, "/", nil)
		c := e.NewContext(req, w)
		s0 := 0
		if c06Prev != nil && rng.Intn(2) == 0 {
			// the context (and its Response) of the previous program, recycled for a new writer the way ServeHTTP does
			c = c06Prev
			c.Reset(req, w)
			s0 = 200
			dist["recycled_response"]++
		} else if rng.Intn(3) != 0 {
			c.Reset(req, w) // what ServeHTTP does with a pooled context: Status = 200
			s0 = 200
		}
		c06Prev = c
		if rng.Intn(5) == 0 {
			// the application installs another logger while contexts (and their Responses) already exist
			e.Logger = glog.New("echo")
			dist["logger_replaced_between_programs"]++
		}
		logbuf := new(bytes.Buffer)
		e.Logger.SetOutput(logbuf)
		e.Logger.SetLevel(glog.WARN)
		resp := c.Response()
		nops := 1 + rng.Intn(12)
		var ops, states []Sx
		var human []string
		ok, why := true, ""
		nontriv := false
		committedBefore := false
		registeredBefore := []int{}
		beforeAtCommit := []int(nil)
		hookID := 0
		flushFirst := rng.Intn(4) == 0
		for i := 0; i < nops; i++ {
			kind := rng.Intn(15)
			if i == 0 && flushFirst {
				kind = 2
			}
			code := codes[rng.Intn(len(codes))]
			size := rng.Intn(20)
			if rng.Intn(6) == 0 {
				size = 0
			}
			partial := rng.Intn(7) == 0
			acc := -1
			if partial {
				acc = rng.Intn(size + 2)
			}
			wasCommitted := resp.Committed
			if !wasCommitted {
				beforeAtCommit = append([]int(nil), registeredBefore...)
			}
			pre := len(evlog)
			bodyK := func(total int) int { // bytes the writer accepted in this op
				k := 0
				for _, ev := range evlog[pre:] {
					s := Show(ev)
					if strings.HasPrefix(s, "(2 ") {
						fmt.Sscanf(s, "(2 %d)", &k)
					}
				}
				return k
			}
			switch kind {
			case 0:
				warned := strings.Count(logbuf.String(), "already committed")
				resp.WriteHeader(code)
				if wasCommitted && strings.Count(logbuf.String(), "already committed") != warned+1 {
					ok, why = false, fmt.Sprintf("op %d: WriteHeader(%d) on a committed response was ignored without a warning in the instance's CURRENT logger", i, code)
				}
				ops = append(ops, L(I(0), I(code)))
				human = append(human, fmt.Sprintf("WriteHeader(%d)", code))
				if wasCommitted {
					nontriv = true
				}
			case 1:
				w.accept = acc
				resp.Write(make([]byte, size))
				ops = append(ops, L(I(1), I(bodyK(size))))
				human = append(human, fmt.Sprintf("Write(%d bytes, writer accepts %d)", size, acc))
			case 2:
				fl := w.flushes
				resp.Flush()
				if w.flushes != fl+1 {
					ok, why = false, fmt.Sprintf("op %d: Flush did not reach the response's current writer (%d flushes seen by it)", i, w.flushes-fl)
				}
				ops = append(ops, L(I(2)))
				human = append(human, "Flush")
				if !wasCommitted {
					nontriv = true
				}
			case 3:
				hookID++
				id := hookID
				resp.Before(func() {
					evlog = append(evlog, L(I(0), I(id), B(resp.Committed), B(w.status >= 0)))
				})
				registeredBefore = append(registeredBefore, id)
				ops = append(ops, L(I(3), I(id)))
				human = append(human, fmt.Sprintf("Before(#%d)", id))
			case 4:
				hookID++
				id := hookID
				resp.After(func() { evlog = append(evlog, L(I(3), I(id))) })
				ops = append(ops, L(I(4), I(id)))
				human = append(human, fmt.Sprintf("After(#%d)", id))
			case 5, 6:
				w.accept = acc
				val := strings.Repeat("a", size)
				if kind == 5 {
					c.JSON(code, val)
				} else {
					c.JSONPretty(code, val, "  ")
				}
				ops = append(ops, L(I(5), I(code), I(bodyK(size+3))))
				human = append(human, fmt.Sprintf("JSON(%d, %d-char string, writer accepts %d)", code, size, acc))
				if wasCommitted {
					nontriv = true
				}
			case 7, 8:
				w.accept = acc
				switch helper := rng.Intn(6); { // (XMLBlob and JSONP write in several pieces: not single-write helpers)
				case kind == 7 && helper < 3:
					c.String(code, strings.Repeat("s", size))
				case helper == 3:
					c.HTML(code, strings.Repeat("h", size))
				case helper == 4:
					c.HTMLBlob(code, make([]byte, size))
				case helper == 5:
					c.JSONBlob(code, make([]byte, size))
				default:
					c.Blob(code, "application/octet-stream", make([]byte, size))
				}
				ops = append(ops, L(I(6), I(code), I(bodyK(size))))
				human = append(human, fmt.Sprintf("String/Blob(%d, %d bytes, writer accepts %d)", code, size, acc))
				if wasCommitted {
					nontriv = true
				}
			case 9:
				if size == 0 {
					size = 1
				}
				w.accept = acc
				c.Stream(code, "text/plain", bytes.NewReader(make([]byte, size)))
				ops = append(ops, L(I(6), I(code), I(bodyK(size))))
				human = append(human, fmt.Sprintf("Stream(%d, %d bytes, writer accepts %d)", code, size, acc))
			case 10:
				c.NoContent(code)
				ops = append(ops, L(I(7), I(code)))
				human = append(human, fmt.Sprintf("NoContent(%d)", code))
				if wasCommitted {
					nontriv = true
				}
			case 12:
				// a net/http handler adapted with echo.WrapHandler: what it writes goes through the same bookkeeping
				w.accept = acc
				echo.WrapHandler(http.HandlerFunc(func(hw http.ResponseWriter, _ *http.Request) {
					hw.WriteHeader(code)
					// (state between the two steps of this one operation)
					states = append(states, L(I(resp.Status), I64(resp.Size), B(resp.Committed), I(w.status), I(w.nbytes), I(w.hdrCalls)))
					hw.Write(make([]byte, size))
				}))(c)
				ops = append(ops, L(I(0), I(code)), L(I(1), I(bodyK(size))))
				human = append(human, fmt.Sprintf("WrapHandler{WriteHeader(%d)", code), fmt.Sprintf("Write(%d bytes, writer accepts %d)}", size, acc))
				if wasCommitted {
					nontriv = true
				}
			case 13:
				// a net/http middleware adapted with echo.WrapMiddleware: it answers itself, or calls the next echo handler
				w.accept = acc
				self := rng.Intn(2) == 0
				echo.WrapMiddleware(func(next http.Handler) http.Handler {
					return http.HandlerFunc(func(hw http.ResponseWriter, r *http.Request) {
						if self {
							hw.WriteHeader(code)
							states = append(states, L(I(resp.Status), I64(resp.Size), B(resp.Committed), I(w.status), I(w.nbytes), I(w.hdrCalls)))
							hw.Write(make([]byte, size))
							return
						}
						next.ServeHTTP(hw, r)
					})
				})(func(c echo.Context) error { return c.String(code, strings.Repeat("s", size)) })(c)
				c.SetRequest(req)
				c.SetResponse(resp) // (the adapter leaves its own Response on the context; later operations use the original again)
				if self {
					ops = append(ops, L(I(0), I(code)), L(I(1), I(bodyK(size))))
					human = append(human, fmt.Sprintf("WrapMiddleware{WriteHeader(%d)", code), fmt.Sprintf("Write(%d bytes, writer accepts %d)}", size, acc))
				} else {
					ops = append(ops, L(I(6), I(code), I(bodyK(size))))
					human = append(human, fmt.Sprintf("WrapMiddleware{next: String(%d, %d bytes, writer accepts %d)}", code, size, acc))
				}
				dist["wrap_middleware"]++
				if wasCommitted {
					nontriv = true
				}
			case 14:
				// a payload streamed with io.Copy INTO the Response (the writer below offers ReadFrom, as net/http's does): it is a
				// body write like any other - implicit 200, counted, hooks run
				if size == 0 {
					size = 1
				}
				w.accept = acc
				io.Copy(resp, io.LimitReader(bytes.NewReader(make([]byte, size)), int64(size)))
				ops = append(ops, L(I(1), I(bodyK(size))))
				human = append(human, fmt.Sprintf("io.Copy(%d bytes, writer accepts %d)", size, acc))
				dist["io_copy_into_response"]++
			default:
				c.Redirect(code, "/target")
				ops = append(ops, L(I(8), I(code)))
				human = append(human, fmt.Sprintf("Redirect(%d)", code))
			}
			if partial && kind != 0 && kind != 2 && kind != 3 && kind != 4 && kind != 10 && kind != 11 && kind != 13 {
				nontriv = true
			}
			w.accept = -1
			states = append(states, L(I(resp.Status), I64(resp.Size), B(resp.Committed), I(w.status), I(w.nbytes), I(w.hdrCalls)))
			// ---- property predicate on the implementation's state alone
			if w.hdrCalls > 1 {
				ok, why = false, "status line written to the underlying writer more than once"
			}
			if resp.Committed != (w.status >= 0) {
				ok, why = false, fmt.Sprintf("after op %d (%s): Committed=%v but headers on the wire=%v", i, human[i], resp.Committed, w.status >= 0)
			}
			if resp.Committed && (resp.Status != w.status || resp.Size != int64(w.nbytes)) {
				ok, why = false, fmt.Sprintf("after op %d (%s): reports status=%d size=%d, sent status=%d bytes=%d", i, human[i], resp.Status, resp.Size, w.status, w.nbytes)
			}
			if wasCommitted && !committedBefore {
				committedBefore = true
			}
		}
		// event log shape: before-hooks (unseen), one header, then bodies/afters
		seenHeader := 0
		var ranBefore []int
		for _, ev := range evlog {
			s := Show(ev)
			switch {
			case strings.HasPrefix(s, "(0 "):
				var id, a, b int
				fmt.Sscanf(s, "(0 %d %d %d)", &id, &a, &b)
				ranBefore = append(ranBefore, id)
				if seenHeader > 0 {
					ok, why = false, "before-hook ran after the headers went out"
				}
				if a != 0 || b != 0 {
					ok, why = false, fmt.Sprintf("before-hook #%d saw Committed=%v / headers on the wire=%v", id, a != 0, b != 0)
				}
			case strings.HasPrefix(s, "(1 "):
				seenHeader++
			}
		}
		if resp.Committed && fmt.Sprint(ranBefore) != fmt.Sprint(beforeAtCommit) {
			ok, why = false, fmt.Sprintf("before-hooks run %v, registered at commit %v", ranBefore, beforeAtCommit)
		}
		if !resp.Committed && len(evlog) != 0 {
			ok, why = false, "hooks or writes happened on an uncommitted response"
		}
		cs := Case{In: L(I(s0), L(ops...)), Out: L(L(states...), L(evlog...)), Ok: ok, Why: why,
			Human: fmt.Sprintf("initial Status=%d; %s", s0, strings.Join(human, "; "))}
		if nontriv {
			cs.Key = Show(L(ops...))
		}
		dist[fmt.Sprintf("ops_%02d", nops)]++
		if flushFirst {
			dist["flush_first"]++
		}
		emit(cs)
	}
}
