(* Top-level corollaries: the specification-level theorems (Sound, Complete, Allow) transferred to
   echo's radix tree through dispatch_build, plus the 404 characterisation. *)
From Coq Require Import List Arith Bool Ascii String Lia Permutation.
Import ListNotations.
From Echo.Router Require Import Spec2 Fuel Refine Insert InsProof Walk Live Toks Build Sound Complete Allow.

Definition fuel_for (rs : list rt) : nat := S (list_max (map (fun x : lentry => List.length (snd x)) (table rs))).

Lemma enough_table rs : enough (fuel_for rs) (table rs).
Proof.
  unfold enough, fuel_for. apply Forall_forall. intros x Hx.
  assert (List.length (snd x) <= list_max (map (fun x : lentry => List.length (snd x)) (table rs))).
  { pose proof (list_max_le (map (fun x : lentry => List.length (snd x)) (table rs)) (list_max (map (fun x : lentry => List.length (snd x)) (table rs)))) as [H _].
    specialize (H (le_n _)). rewrite Forall_forall in H. apply H. apply (in_map (fun x : lentry => List.length (snd x))). exact Hx. }
  lia.
Qed.

Definition wf_table (rs : list rt) : Prop := Forall (fun r => wf_toks (rt_toks r)) rs /\ NoDup (map rkey rs).

Theorem dispatch_spec rs m p : wf_table rs -> dispatch (build rs) m p = spec_dispatch (fuel_for rs) rs m p.
Proof. intros [HW HN]. apply dispatch_build; auto using enough_table. Qed.

Theorem instance_sound rs m p r v : wf_table rs -> dispatch (build rs) m p = Found r v -> subst (r_toks r) v = Some p.
Proof.
  intros HWf H. rewrite (dispatch_spec rs m p HWf) in H. destruct HWf as [HW HN]. unfold spec_dispatch in H.
  eapply spec_sound; [apply table_live_ok|apply table_any_last; exact HW|exact H].
Qed.

(* the route that serves is one of the table, registered for the request's method or as RouteNotFound *)
Lemma in_table rs r : In r rs -> In (entry_of r) (table rs).
Proof. intro H. unfold table. apply in_map. exact H. Qed.

Theorem instance_complete rs m p r : wf_table rs -> m <> NF -> In r rs -> rt_m r = m -> matchT (rt_toks r) p ->
  is_found (dispatch (build rs) m p).
Proof.
  intros HWf Hm Hin Hr HM. rewrite (dispatch_spec rs m p HWf). unfold spec_dispatch.
  eapply (search_complete (fuel_for rs) m [] (table rs) p [] None (fst (entry_of r)) (snd (entry_of r))).
  - exact Hm.
  - apply enough_table.
  - rewrite <- surjective_pairing. apply in_table. exact Hin.
  - unfold entry_of, new_entry. simpl. exact Hr.
  - unfold entry_of, new_entry. simpl. exact HM.
Qed.

Theorem instance_allow_truthful rs m m' p b r' : wf_table rs -> m' <> NF ->
  dispatch (build rs) m p = Miss (Some b) -> In r' rs -> rt_toks r' = b -> rt_m r' = m' ->
  is_found (dispatch (build rs) m' p).
Proof.
  intros HWf Hm' H Hin Ht Hr. rewrite (dispatch_spec rs m p HWf) in H. rewrite (dispatch_spec rs m' p HWf).
  unfold spec_dispatch in *.
  eapply (allow_truthful (fuel_for rs) m m' [] (table rs) p [] b (fst (entry_of r')) (snd (entry_of r'))).
  - exact Hm'.
  - apply table_live_ok.
  - exact H.
  - rewrite <- surjective_pairing. apply in_table. exact Hin.
  - unfold entry_of, new_entry. simpl. exact Ht.
  - unfold entry_of, new_entry. simpl. exact Hr.
Qed.

(* 404 does not depend on the method *)
Theorem instance_404_method_indep rs m m' p : wf_table rs ->
  dispatch (build rs) m p = Miss None -> dispatch (build rs) m' p = Miss None.
Proof. intros HWf H. rewrite (dispatch_spec rs m p HWf) in H. rewrite (dispatch_spec rs m' p HWf).
  unfold spec_dispatch in *. eapply search_none_indep; eassumption. Qed.

(* matching with echo's documented quirk: a parameter that ends the pattern may absorb the rest *)
Inductive matchQ : list tok -> str -> Prop :=
| Q_nil : matchQ [] []
| Q_lit : forall c ts p, matchQ ts p -> matchQ (TLit c :: ts) (c :: p)
| Q_param : forall ts p, p <> [] -> matchQ ts (drop_seg p) -> matchQ (TParam :: ts) p
| Q_param_last : forall p, p <> [] -> matchQ [TParam] p
| Q_any : forall p, matchQ [TAny] p.

Lemma in_advance_inv t ls r rest : In (r, rest) (advance t ls) -> In (r, t :: rest) ls.
Proof.
  unfold advance. intro H. apply in_flat_map in H as [x [Hx Hin]]. unfold adv1 in Hin.
  destruct x as [r0 rem]. simpl in Hin. destruct rem as [|t' rest']; [contradiction|].
  destruct (tok_eqb t' t) eqn:E; [|contradiction]. destruct Hin as [Hin|[]]. inversion Hin; subst.
  assert (t' = t). { destruct t', t; simpl in E; try discriminate; auto. apply Ascii.eqb_eq in E. subst. reflexivity. }
  subst. exact Hx.
Qed.

Lemma terminals_in ls r : In r (terminals ls) -> In (r, []) ls.
Proof. unfold terminals. intro H. apply in_map_iff in H as [[r0 rem] [E Hin]]. simpl in E. subst r0.
  apply filter_In in Hin as [Hin Ht]. unfold is_term in Ht. simpl in Ht. destruct rem; [exact Hin|discriminate]. Qed.

Lemma find_m_none_nil m : find_m [] m = None. Proof. reflexivity. Qed.

Theorem search_no_match : forall f m pre ls p vals best, any_last ls ->
  (forall r rem, In (r, rem) ls -> ~ matchQ rem p) -> search f m pre ls p vals best = Miss best.
Proof.
  induction f as [|f IH]; intros m pre ls p vals best Hal Hno; [reflexivity|]. cbn [search].
  assert (E1 : end_check m pre (terminals ls) p vals best = Miss best).
  { unfold end_check. destruct p; [|reflexivity].
    destruct (terminals ls) as [|r0 tl] eqn:Et.
    - reflexivity.
    - exfalso. apply (Hno r0 []); [apply terminals_in; rewrite Et; left; reflexivity|constructor]. }
  apply (orelse_miss_intro _ _ best); [exact E1|]. cbv beta.
  assert (E2 : match p with
          | c :: p' => let nx := advance (TLit c) ls in
                       if nonempty nx then search f m (pre ++ [TLit c]) nx p' vals best else Miss best
          | [] => Miss best end = Miss best).
  { destruct p as [|c p']; [reflexivity|]. cbv zeta. destruct (nonempty (advance (TLit c) ls)); [|reflexivity].
    apply IH; [apply advance_any_last; exact Hal|]. intros r rem Hin HM. apply in_advance_inv in Hin.
    apply (Hno r _ Hin). constructor. exact HM. }
  apply (orelse_miss_intro _ _ best); [exact E2|]. cbv beta.
  assert (E3 : match p with
          | _ :: _ =>
            let nx := advance TParam ls in
            if nonempty nx then
              let leaf := forallb is_term nx in
              search f m (pre ++ [TParam]) nx (if leaf then [] else drop_seg p) (vals ++ [if leaf then p else take_seg p]) best
            else Miss best
          | [] => Miss best end = Miss best).
  { destruct p as [|c p']; [reflexivity|]. cbv zeta. destruct (nonempty (advance TParam ls)) eqn:En; [|reflexivity].
    apply IH; [apply advance_any_last; exact Hal|]. intros r rem Hin HM. apply in_advance_inv in Hin.
    destruct (forallb is_term (advance TParam ls)) eqn:El.
    - (* leaf: rem = [] and the parameter absorbs the rest *)
      assert (rem = []).
      { assert (Hin2 : In (r, rem) (advance TParam ls)).
        { unfold advance. apply in_flat_map. exists (r, TParam :: rem). split; [exact Hin|]. simpl. left. reflexivity. }
        rewrite forallb_forall in El. specialize (El _ Hin2). unfold is_term in El. simpl in El. destruct rem; [reflexivity|discriminate]. }
      subst rem. apply (Hno r _ Hin). apply Q_param_last. discriminate.
    - apply (Hno r _ Hin). apply Q_param; [discriminate|exact HM]. }
  apply (orelse_miss_intro _ _ best); [exact E3|]. cbv beta.
  unfold any_step. destruct (advance TAny ls) as [|[r0 rem0] tl] eqn:Ea; [reflexivity|].
  exfalso. assert (Hin : In (r0, TAny :: rem0) ls) by (apply in_advance_inv; rewrite Ea; left; reflexivity).
  unfold any_last in Hal. rewrite Forall_forall in Hal. specialize (Hal _ Hin [] rem0 eq_refl). simpl in Hal. subst rem0.
  apply (Hno r0 _ Hin). constructor.
Qed.

Theorem instance_404 rs m p : wf_table rs ->
  (forall r, In r rs -> ~ matchQ (rt_toks r) p) -> dispatch (build rs) m p = Miss None.
Proof.
  intros HWf Hno. rewrite (dispatch_spec rs m p HWf). destruct HWf as [HW HN]. unfold spec_dispatch.
  apply search_no_match; [apply table_any_last; exact HW|].
  intros r rem Hin. unfold table in Hin. apply in_map_iff in Hin as [r0 [E Hin]].
  unfold entry_of, new_entry in E. inversion E; subst. apply Hno. exact Hin.
Qed.
