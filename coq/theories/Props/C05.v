(* C05 — requests are isolated from each other under context recycling.
   Statements only; proofs in Http/ContextProofs.v.  Sequential histories on a recycled context are
   proved; for concurrent requests the model's argument is that ServeHTTP takes a context out of the pool
   for exactly one request (Get ... Put), so in-flight contexts are distinct objects and each request's
   observations are those of its own context (the Go memory model, sync.Pool internals and data races
   are not modelled: partial, see DESIGN). *)
From Coq Require Import List Arith Bool.
From Echo Require Import Base.Sx Http.Context Http.ContextProofs.
Import ListNotations.

(* after Reset a recycled context is observationally a new one: path parameters, matched route, query
   cache, stored values, logger, response status/size/committed flag and hooks *)
Theorem C05_reset_fresh : forall c r maxp, observe (reset c r maxp) = observe (new_context r maxp).
Proof. exact reset_fresh. Qed.
Print Assumptions C05_reset_fresh.

(* registering routes with more parameters between requests never leaves a too short value array *)
Theorem C05_array_long_enough : forall c r maxp,
  maxp <= List.length (c_pvalues (reset c r maxp)) /\ is_blank (c_pvalues (reset c r maxp)) = true.
Proof. exact array_long_enough. Qed.
Print Assumptions C05_array_long_enough.

(* what a handler observes at its start does not depend on which context was recycled for it *)
Theorem C05_start_observation_indep : forall c c' r maxp m,
  match m with Some x => List.length (m_values x) <= maxp /\ List.length (m_names x) = List.length (m_values x) | None => True end ->
  observe (find (reset c r maxp) m) = observe (find (reset c' r maxp) m).
Proof. exact start_observation_indep. Qed.
Print Assumptions C05_start_observation_indep.

(* every history of requests and handler programs (storing values, replacing the logger, registering
   hooks, overwriting parameters, writing or not writing a response) with registrations in between
   (maxParam may differ per event): the i-th observation is that of a brand-new context *)
Theorem C05_history : forall evs c,
  Forall (fun e => let '(r, maxp, m, prog) := e in
          match m with Some x => List.length (m_values x) <= maxp /\ List.length (m_names x) = List.length (m_values x) | None => True end) evs ->
  history c evs = map (fun e => let '(r, maxp, m, prog) := e in observe (find (new_context r maxp) m)) evs.
Proof. exact history_isolated. Qed.
Print Assumptions C05_history.

(* the values read are exactly the ones routing wrote, with no residue behind them *)
Theorem C05_values_exact : forall c r maxp x,
  List.length (m_values x) <= maxp -> List.length (m_names x) = List.length (m_values x) ->
  o_values (observe (find (reset c r maxp) (Some x))) = m_values x /\
  o_rest_blank (observe (find (reset c r maxp) (Some x))) = true.
Proof. exact values_exact. Qed.
Print Assumptions C05_values_exact.

From Coq Require Import String ZArith.
From Echo Require Import Base.GoLite Gen.Src_context Gen.Src_response Http.ContextSrc.
Open Scope Z_scope.

(* ---- the tie to the source by proof: context.Reset and Response.reset, translated statement by statement from
   context.go / response.go on every run (Gen/Src_context.v, Gen/Src_response.v; language Base/GoLite.v).  Whatever
   the recycled context held (q0 .. q11 are arbitrary), afterwards the request is the new one, the query cache,
   handler, store, path, parameter names and logger have their fresh values, the response has been reset and the
   value array has been blanked - every cell that the model's [reset] resets *)
Theorem C05_source_reset_forgets : forall (sym : string -> Z) q0 q1 q2 q3 q4 q5 q6 q7 q8 q9 q10 q11 r w,
  let '(st', _) := GoLite.run sym src_context_reset_results src_context_reset (recycled [q0; q1; q2; q3; q4; q5; q6; q7; q8; q9; q10; q11] r w) in
  GoLite.get (fields st') "c.request" = r /\
  GoLite.get (fields st') "c.query" = sym "nil" /\
  GoLite.get (fields st') "c.handler" = sym "NotFoundHandler" /\
  GoLite.get (fields st') "c.store" = sym "nil" /\
  GoLite.get (fields st') "c.path" = sym """""" /\
  GoLite.get (fields st') "c.pnames" = sym "nil" /\
  GoLite.get (fields st') "c.logger" = sym "nil" /\
  events st' = [("c.response.reset", [w]); ("blank c.pvalues", [])].
Proof. exact src_context_reset_forgets. Qed.
Print Assumptions C05_source_reset_forgets.

(* the value array is re-made with maxParam entries exactly when it was shorter (routes added since the context was created) *)
Theorem C05_source_reset_grows : forall (sym : string -> Z) q0 q1 q2 q3 q4 q5 q6 q7 q8 q9 q10 q11 r w,
  sym "nil" = 0 -> q8 <> 0 -> q9 <> 0 ->
  let '(st', _) := GoLite.run sym src_context_reset_results src_context_reset (recycled [q0; q1; q2; q3; q4; q5; q6; q7; q8; q9; q10; q11] r w) in
  GoLite.get (fields st') "c.pvalues" = if q10 <? q11 then sym "make([]string,*c.echo.maxParam)" else q7.
Proof. exact src_context_reset_grows. Qed.
Print Assumptions C05_source_reset_grows.

(* Response.reset: hooks, size, status and the committed flag of the previous request are gone *)
Theorem C05_source_response_reset : forall (sym : string -> Z) b a wr sz stt cm w,
  let st := {| locals := [("w", w)];
               fields := [("r.beforeFuncs", b); ("r.afterFuncs", a); ("r.Writer", wr); ("r.Size", sz); ("r.Status", stt); ("r.Committed", cm)];
               events := []; inputs := [] |} in
  let '(st', _) := GoLite.run sym src_response_reset_results src_response_reset st in
  GoLite.get (fields st') "r.beforeFuncs" = sym "nil" /\ GoLite.get (fields st') "r.afterFuncs" = sym "nil" /\
  GoLite.get (fields st') "r.Writer" = w /\ GoLite.get (fields st') "r.Size" = 0 /\
  GoLite.get (fields st') "r.Status" = sym "http.StatusOK" /\ GoLite.get (fields st') "r.Committed" = 0.
Proof. exact src_response_reset_forgets. Qed.
Print Assumptions C05_source_response_reset.


(* ---- Echo.ServeHTTP itself, from its statement-level translation (Gen/Src_servehttp.v, re-translated from echo.go on every
   run): the pooled context is Reset with THIS request and writer before anything else touches it and returns to the pool exactly
   once, last, whether the chain failed or not; the error handler runs exactly when the chain returns an error; without Pre
   middleware the route is looked up first, with Pre middleware not by ServeHTTP at all (the lookup is inside the wrapped closure) *)
From Coq Require Import ZArith String.
From Echo Require Import Base.GoLite Gen.Src_servehttp Http.ServeHTTPSrc.
Theorem C05_source_serve_http : forall sym, sym "nil"%string = 0%Z -> forall pre ctx r w hv err,
  GoLite.events (fst (GoLite.run sym src_serve_http_results src_serve_http (ServeHTTPSrc.start pre ctx r w hv err))) =
  ([ev_get; ev_reset r w] ++ (if (pre =? 0)%Z then [ev_find sym ctx; ev_handler] else []) ++ [ev_chain ctx] ++
   (if (err =? 0)%Z then [] else [ev_error ctx err]) ++ [ev_put ctx])%list.
Proof. exact ServeHTTPSrc.C05_source_serve_http. Qed.
Print Assumptions C05_source_serve_http.
