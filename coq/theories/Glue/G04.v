From Coq Require Import List ZArith Bool Arith.
From Echo Require Import Base.Sx.
From Echo.Router Require Import Spec2.
From Echo Require Import Http.Onion.
Import ListNotations.
(* input: ((op ...) (host method path))
   mw: (id kind arg): kind 0 pass, 1 rewrite to arg, 2 fail with code arg
   op: (0 mw) Pre | (1 mw) Use | (2 g parent|-1 prefix (mw ...)) group | (3 g host (mw ...)) host |
       (4 g (mw ...)) group.Use | (5 owner|-1 method path h err (mw ...)) Add
   output: ((event ...) err); event (0 i) enter, (1 i err) exit, (2 h err) handler *)
Definition dec_mw (x : sx) : mw :=
  {| mw_id := Z.to_nat (as_Z (nth_sx 0 x));
     mw_kind_of := match as_Z (nth_sx 1 x) with
                   | 1%Z => MRewrite (as_str (nth_sx 2 x))
                   | 2%Z => MFail (Z.to_nat (as_Z (nth_sx 2 x)))
                   | 3%Z => MHost (as_str (nth_sx 2 x))
                   | _ => MPass end |}.
Definition dec_mws (x : sx) : list mw := map dec_mw (as_list x).
Definition opt_nat (x : sx) : option nat := if (as_Z x <? 0)%Z then None else Some (Z.to_nat (as_Z x)).
Definition dec_op (x : sx) : op :=
  match as_Z (nth_sx 0 x) with
  | 0%Z => OPre (dec_mw (nth_sx 1 x))
  | 1%Z => OUse (dec_mw (nth_sx 1 x))
  | 2%Z => ONewGroup (Z.to_nat (as_Z (nth_sx 1 x))) (opt_nat (nth_sx 2 x)) (as_str (nth_sx 3 x)) (dec_mws (nth_sx 4 x))
  | 3%Z => ONewHost (Z.to_nat (as_Z (nth_sx 1 x))) (as_str (nth_sx 2 x)) (dec_mws (nth_sx 3 x))
  | 4%Z => OGroupUse (Z.to_nat (as_Z (nth_sx 1 x))) (dec_mws (nth_sx 2 x))
  | _ => OAdd (opt_nat (nth_sx 1 x)) (as_str (nth_sx 2 x)) (as_str (nth_sx 3 x))
              (Z.to_nat (as_Z (nth_sx 4 x))) (Z.to_nat (as_Z (nth_sx 5 x))) (dec_mws (nth_sx 6 x))
  end.
Definition enc_ev (e : ev) : sx :=
  match e with
  | Enter i => SL [SZ 0; of_nat i]
  | Exit i c => SL [SZ 1; of_nat i; of_nat c]
  | Handler h c => SL [SZ 2; of_nat (if Nat.eqb h global_404 then nf_handler else h); of_nat c]
  end.
Definition run_sx (x : sx) : sx :=
  let s := interp (map dec_op (as_list (nth_sx 0 x))) in
  let q := nth_sx 1 x in
  let '(tr, e) := request s (as_str (nth_sx 0 q)) (as_str (nth_sx 1 q)) (as_str (nth_sx 2 q)) in
  SL [SL (map enc_ev tr); of_nat e].
