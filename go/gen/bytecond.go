package main

import (
	"fmt"
	"go/ast"
	"go/token"
	"strconv"
)

// byteCond translates a Go boolean expression over ONE byte variable (spelled varText in the
// source, e.g. "uri[i]") built from == != && || ! and character/integer literals into a Gallina
// boolean over the ascii variable c.
func byteCond(e ast.Expr, varText string) (string, error) {
	switch v := e.(type) {
	case *ast.ParenExpr:
		return byteCond(v.X, varText)
	case *ast.UnaryExpr:
		if v.Op == token.NOT {
			s, err := byteCond(v.X, varText)
			return "(negb " + s + ")", err
		}
	case *ast.BinaryExpr:
		switch v.Op {
		case token.LAND, token.LOR:
			a, err := byteCond(v.X, varText)
			if err != nil {
				return "", err
			}
			b, err := byteCond(v.Y, varText)
			if err != nil {
				return "", err
			}
			op := "&&"
			if v.Op == token.LOR {
				op = "||"
			}
			return fmt.Sprintf("(%s %s %s)", a, op, b), nil
		case token.EQL, token.NEQ:
			var litE ast.Expr
			if lit(v.X) == varText {
				litE = v.Y
			} else if lit(v.Y) == varText {
				litE = v.X
			} else {
				return "", fmt.Errorf("comparison does not mention %s: %s", varText, lit(v))
			}
			n, err := byteLit(litE)
			if err != nil {
				return "", err
			}
			s := fmt.Sprintf("(Ascii.eqb c \"%03d\"%%char)", n)
			if v.Op == token.NEQ {
				s = "(negb " + s + ")"
			}
			return s, nil
		}
	}
	return "", fmt.Errorf("unsupported byte condition: %s", lit(e))
}

func byteLit(e ast.Expr) (int, error) {
	bl, ok := e.(*ast.BasicLit)
	if !ok {
		return 0, fmt.Errorf("not a literal: %s", lit(e))
	}
	switch bl.Kind {
	case token.CHAR:
		r, _, _, err := strconv.UnquoteChar(bl.Value[1:len(bl.Value)-1], '\'')
		if err != nil || r > 255 {
			return 0, fmt.Errorf("bad char literal %s", bl.Value)
		}
		return int(r), nil
	case token.INT:
		n, err := strconv.ParseInt(bl.Value, 0, 32)
		if err != nil || n < 0 || n > 255 {
			return 0, fmt.Errorf("bad int literal %s", bl.Value)
		}
		return int(n), nil
	}
	return 0, fmt.Errorf("unsupported literal %s", bl.Value)
}
