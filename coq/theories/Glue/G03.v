From Echo Require Import Base.Sx Glue.GRouter.
Definition run_sx (x : sx) : sx := GRouter.run_sx x.
