(* Executable models of strconv.ParseUint / ParseInt (base 10, given bitSize) / ParseBool and of Go's
   narrowing integer conversions.  (C08) *)
From Coq Require Import List Bool Ascii String ZArith NArith.
From Echo Require Import Base.Sx.
Import ListNotations.
Open Scope Z_scope.

Definition digit (c : ascii) : option Z :=
  let n := Z.of_N (N_of_ascii c) in if (48 <=? n) && (n <=? 57) then Some (n - 48) else None.

Fixpoint digits_val (s : str) (acc : Z) : option Z :=
  match s with
  | [] => Some acc
  | c :: r => match digit c with Some d => digits_val r (acc * 10 + d) | None => None end
  end.

Definition eff (bits : Z) : Z := if bits =? 0 then 64 else bits.    (* bitSize 0 = int = 64 bit here *)

(* strconv.ParseUint(s, 10, bits): non-empty ASCII digits only (no sign, no '_', no prefix), < 2^bits *)
Definition parse_uint (bits : Z) (s : str) : option Z :=
  match s with
  | [] => None
  | _ => match digits_val s 0 with
         | Some v => if v <? 2 ^ eff bits then Some v else None
         | None => None
         end
  end.

(* strconv.ParseInt(s, 10, bits): optional sign, then digits; -2^(bits-1) <= z < 2^(bits-1) *)
Definition split_sign (s : str) : bool * str :=
  match s with
  | c :: r => if Ascii.eqb c "+"%char then (false, r)
              else if Ascii.eqb c "-"%char then (true, r) else (false, s)
  | [] => (false, [])
  end.

Definition parse_mag (bits : Z) (neg : bool) (body : str) : option Z :=
  match body with
  | [] => None
  | _ => match digits_val body 0 with
         | Some v => let z := if neg then - v else v in
                     if (- 2 ^ (eff bits - 1) <=? z) && (z <? 2 ^ (eff bits - 1)) then Some z else None
         | None => None
         end
  end.

Definition parse_int (bits : Z) (s : str) : option Z :=
  let '(neg, body) := split_sign s in parse_mag bits neg body.

(* strconv.ParseBool *)
Definition parse_bool (s : str) : option bool :=
  if existsb (str_eqb s) (map lit ["1"; "t"; "T"; "TRUE"; "true"; "True"]%string) then Some true
  else if existsb (str_eqb s) (map lit ["0"; "f"; "F"; "FALSE"; "false"; "False"]%string) then Some false
  else None.

(* Go conversions intN(x) / uintN(x) and reflect.SetInt/SetUint into an N-bit field *)
Definition wrap_u (w z : Z) : Z := z mod 2 ^ w.
Definition wrap_s (w z : Z) : Z := (z + 2 ^ (w - 1)) mod 2 ^ w - 2 ^ (w - 1).
