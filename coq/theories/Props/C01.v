(* C01 — a dispatched route really matches the path; params reconstruct it.
   Statements only; proofs in Router/Sound.v and Router/Build.v.  [subst toks vals] instantiates a parsed
   pattern (literal bytes, one value per :param, the rest for the trailing wildcard).
   Domain: escape-free patterns ([wf_toks]: leading "/", no literal ':' or '*', '*' last) without
   structural duplicates; tables with an escaped colon colliding with a parameter are the known
   finding D3 (see DESIGN). *)
From Coq Require Import List Arith Bool Ascii String Permutation.
From Echo.Router Require Import Spec2 Fuel Refine Insert InsProof Walk Live Toks Build Sound Top.
Import ListNotations.

(* on the order-free specification, for every live set (table), method and path *)
Theorem C01_spec_sound : forall f m ls p r v,
  live_ok [] ls -> any_last ls -> search f m [] ls p [] None = Found r v -> subst (r_toks r) v = Some p.
Proof. exact spec_sound. Qed.
Print Assumptions C01_spec_sound.

(* on echo's radix tree built by replaying Router.insert's insertNode calls, in any registration order *)
Theorem C01_instance : forall rs m p r v, wf_table rs ->
  dispatch (build rs) m p = Found r v -> subst (r_toks r) v = Some p.
Proof. exact instance_sound. Qed.
Print Assumptions C01_instance.

(* ---- what the router makes of a registered pattern before its scan looks at it, from the statement-level translation of
   normalizePathSlash (Gen/Src_normpath.v, re-translated from router.go on every run): the result always begins with '/', and
   a pattern that already does is left as it is - the theorems above lose no registration by speaking of rooted patterns *)
From Coq Require Import ZArith String Ascii.
From Echo Require Import Base.Sx Base.GoLoop Gen.Src_normpath Router.NormPathSrc.
Theorem C01_source_normalize_path : forall p : Sx.str,
  snd (GoLoop.run nsym npred src_normalize_path_slash_results src_normalize_path_slash
         {| GoLoop.locals := [("path"%string, VS p)]; GoLoop.fields := []; GoLoop.lists := []; GoLoop.events := []; GoLoop.inputs := [] |}) = [VS (normalized p)].
Proof. exact NormPathSrc.C01_source_normalize_path. Qed.
Print Assumptions C01_source_normalize_path.
Theorem C01_source_normalized_rooted : forall p, (exists r, normalized p = "/"%char :: r) /\ (forall r, normalized ("/"%char :: r) = "/"%char :: r).
Proof. intro p. split; [apply normalized_rooted | apply normalized_id]. Qed.
Print Assumptions C01_source_normalized_rooted.
