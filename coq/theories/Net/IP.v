(* Model of ip.go's classification (ipChecker.trust) over addresses as byte lists:
   4 bytes for IPv4 (incl. v4-mapped, as ip.To4() yields), 16 bytes for other IPv6. (C10) *)
From Coq Require Import List NArith Bool.
From Echo Require Import Gen.Src_ip.
Import ListNotations.
Open Scope N_scope.

Definition ip := list N.

Definition nthb (a : ip) (i : nat) : N := nth i a 0.

(* net.IP.IsLoopback *)
Definition is_loopback (a : ip) : bool :=
  match a with
  | [b0; _; _; _] => b0 =? 127
  | [a0;a1;a2;a3;a4;a5;a6;a7;a8;a9;a10;a11;a12;a13;a14;a15] =>
      forallb (N.eqb 0) [a0;a1;a2;a3;a4;a5;a6;a7;a8;a9;a10;a11;a12;a13;a14] && (a15 =? 1)
  | _ => false
  end.

(* net.IP.IsLinkLocalUnicast *)
Definition is_link_local (a : ip) : bool :=
  match a with
  | [b0; b1; _; _] => (b0 =? 169) && (b1 =? 254)
  | b0 :: b1 :: r => (Nat.eqb (List.length r) 14) && (b0 =? 254) && (N.land b1 192 =? 128)
  | _ => false
  end.

(* isPrivateIPRange, from the generated expressions *)
Definition is_private (a : ip) : bool :=
  match a with
  | [b0; b1; b2; b3] => is_private_v4 b0 b1 b2 b3
  | _ => is_private_v6 (N.of_nat (List.length a)) (nthb a 0) (nthb a 1) (nthb a 2) (nthb a 3)
  end.

(* net.IPNet.Contains for a range given as (network bytes, mask bytes) *)
Fixpoint masked_eq (n m a : list N) : bool :=
  match n, m, a with
  | [], [], [] => true
  | x :: n', k :: m', y :: a' => (N.land x k =? N.land y k) && masked_eq n' m' a'
  | _, _, _ => false
  end.
Definition contains (r : list N * list N) (a : ip) : bool := masked_eq (fst r) (snd r) a.

Record cfg := { t_loopback : bool; t_linklocal : bool; t_private : bool; t_ranges : list (list N * list N) }.

(* ipChecker.trust *)
Definition trust (c : cfg) (a : ip) : bool :=
  (t_loopback c && is_loopback a) || (t_linklocal c && is_link_local a) ||
  (t_private c && is_private a) || existsb (fun r => contains r a) (t_ranges c).
