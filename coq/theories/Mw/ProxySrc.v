(* roundRobinBalancer.Next as translated from middleware/proxy.go on every run (Gen/Src_proxy.v) computes the
   model's [next]: same chosen index, same global index afterwards, and the per-request index is recorded exactly
   when the list has two or more targets.  (C19) *)
From Coq Require Import List ZArith Bool String Lia Arith.
From Echo Require Import Base.GoLite Gen.Src_proxy Mw.Proxy.
Import ListNotations.
Open Scope Z_scope.

Section Src.
Variable sym : string -> Z.
Hypothesis sym_nil : sym "nil" = -1.
Variable T : Type.

Definition enc (o : option nat) : Z := match o with Some i => Z.of_nat i | None => -1 end.

Definition rr_state (n idx : nat) (last : option nat) : state :=
  {| locals := [];
     fields := [("len(b.targets)", Z.of_nat n); ("b.i", Z.of_nat idx); ("c.Get(lastIdxKey)", enc last)];
     events := []; inputs := [] |}.

Ltac golite := repeat (cbn [exec exec_s eval get put assign locals fields events inputs String.eqb Ascii.eqb Bool.eqb
                            map tl app negb andb orb fst snd]; rewrite ?truthy_b2z).

Lemma enc_ne_nil last : (enc last =? -1) = match last with Some _ => false | None => true end.
Proof. destruct last; simpl; [apply Z.eqb_neq; lia|reflexivity]. Qed.

Theorem src_rr_next_is_next (s : st T) last :
  let n := List.length (targets T s) in
  let '(st1, ret) := run sym src_rr_next_results src_rr_next (rr_state n (idx T s) last) in
  let '(s', last', o) := next T s last in
  ret = [enc o] /\
  get (fields st1) "b.i" = Z.of_nat (idx T s') /\
  events st1 = (if 2 <=? n then [("c.Set", [sym "lastIdxKey"; enc o])] else [])%nat.
Proof.
  unfold next, run, src_rr_next, src_rr_next_results, rr_state. destruct (targets T s) as [|x [|y l]] eqn:Et; cbn [List.length].
  - golite. change (Z.of_nat 0 =? 0) with true. golite. rewrite sym_nil. repeat split; reflexivity.
  - golite. change (Z.of_nat 1 =? 0) with false. golite. change (Z.of_nat 1 =? 1) with true. golite. repeat split; reflexivity.
  - set (n := S (S (List.length l))).
    assert (H0 : (Z.of_nat n =? 0) = false) by (apply Z.eqb_neq; lia).
    assert (H1 : (Z.of_nat n =? 1) = false) by (apply Z.eqb_neq; lia).
    assert (Hn : (2 <=? n)%nat = true) by (apply Nat.leb_le; lia).
    rewrite Hn. golite. rewrite H0. golite. rewrite H1. golite. rewrite sym_nil.
    destruct last as [a|]; cbn [enc].
    + (* a retry: the successor of the index kept in the request context *)
      replace (Z.of_nat a =? -1) with false by (symmetry; apply Z.eqb_neq; lia). golite.
      destruct (Nat.ltb_spec (S a) n) as [Hlt|Hge].
      * replace (Z.of_nat n <=? Z.of_nat a + 1) with false by (symmetry; apply Z.leb_gt; lia).
        golite. repeat split; try reflexivity; repeat f_equal; lia.
      * replace (Z.of_nat n <=? Z.of_nat a + 1) with true by (symmetry; apply Z.leb_le; lia).
        golite. repeat split; reflexivity.
    + change (-1 =? -1) with true. golite.
      destruct (Nat.leb_spec n (idx T s)) as [Hle|Hgt].
      * replace (Z.of_nat n <=? Z.of_nat (idx T s)) with true by (symmetry; apply Z.leb_le; lia).
        golite. repeat split; reflexivity.
      * replace (Z.of_nat n <=? Z.of_nat (idx T s)) with false by (symmetry; apply Z.leb_gt; lia).
        golite. repeat split; try reflexivity. cbn [idx]. lia.
Qed.
End Src.
