From Coq Require Import List ZArith Bool.
From Echo Require Import Base.Sx Http.Response Http.ErrorHandler.
Import ListNotations.
Open Scope Z_scope.
(* input: (debug is_head committed_before err err_text)
     err: (0 txt) plain | (1 txt inner) wrapped | (2 code (kind text) (internal?)) ; kind 0 string 1 error 2 json
   output: (wire_status header_writes handled (body-kind message error?))
     body-kind: -1 none (handler silent), 0 empty, 1 object, 2 raw *)
Fixpoint dec_err (fuel : nat) (x : sx) : err :=
  match fuel with O => Plain [] | S f =>
  match as_Z (nth_sx 0 x) with
  | 0 => Plain (as_str (nth_sx 1 x))
  | 1 => Wrapped (as_str (nth_sx 1 x)) (dec_err f (nth_sx 2 x))
  | _ => let m := nth_sx 2 x in
         let mm := match as_Z (nth_sx 0 m) with 0 => MStr (as_str (nth_sx 1 m)) | 1 => MErr (as_str (nth_sx 1 m)) | _ => MJson (as_str (nth_sx 1 m)) end in
         HTTPErr (as_Z (nth_sx 1 x)) mm
                 (match as_list (nth_sx 3 x) with [] => None | i :: _ => Some (dec_err f i) end)
  end end.
Definition enc_body (b : option (Z * body)) : sx :=
  match b with
  | None => SL [SZ (-1)]
  | Some (_, BEmpty) => SL [SZ 0]
  | Some (_, BObject m e) => SL [SZ 1; SS m; match e with Some t => SL [SS t] | None => SL [] end]
  | Some (_, BRaw p) => SL [SZ 2; SS p]
  end.
Definition run_sx (x : sx) : sx :=
  let debug := as_bool (nth_sx 0 x) in
  let hd := as_bool (nth_sx 1 x) in
  let pre := as_Z (nth_sx 2 x) in                     (* 0: nothing written before; else the committed status *)
  let prog := if pre =? 0 then [] else [Blob pre 7] in
  let e := dec_err 10 (nth_sx 3 x) in
  let '(r, b) := serve debug hd 200 prog (Some (e, as_str (nth_sx 4 x))) in
  SL [SZ (match w_status (wr r) with Some s => s | None => -1 end); of_nat (w_hdr_calls (wr r)); enc_body b].
