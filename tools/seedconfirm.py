#!/usr/bin/env python3
"""Confirms a seeded change independently in a scratch worktree and files it under /verif/seeded/<id>/.
usage: seedconfirm.py <srcdir> <prop> <letter>"""
import json, os, re, shutil, subprocess, sys
src, prop, x = sys.argv[1:4]
new = sys.argv[4] if len(sys.argv) > 4 else x
sid = "%s-%s" % (prop, new)
env = dict(os.environ, GOFLAGS="-mod=mod", GOPROXY="off", GOSUMDB="off", GOTOOLCHAIN="local")
wt = "/tmp/seedconfirm_" + sid
def sh(cmd, cwd=None):
    p = subprocess.run(cmd, shell=True, cwd=cwd, env=env, stdout=subprocess.PIPE, stderr=subprocess.STDOUT, text=True)
    return p.returncode, p.stdout
patch = os.path.join(src, x + ".patch.diff")
demo = os.path.join(src, x + "_demo_test.go")
meta_txt = open(os.path.join(src, x + ".meta.txt")).read() if os.path.exists(os.path.join(src, x + ".meta.txt")) else ""
pkg = re.search(r"^package (\w+)", open(demo).read(), re.M).group(1)
sub = "middleware" if pkg.startswith("middleware") else "."
sh("git -C /repo worktree remove --force " + wt)
rc, out = sh("git -C /repo worktree add -q --detach %s HEAD" % wt)
res = {"id": sid, "property": prop, "demo_dir": sub}
try:
    rc, out = sh("git apply " + patch, cwd=wt); res["applies"] = rc == 0
    rc, out = sh("go build ./... && go test -vet=off -count=1 ./...", cwd=wt)
    if rc != 0 and "address already in use" in out:
        rc, out = sh("go build ./... && go test -vet=off -count=1 ./...", cwd=wt)
    res["suite_passes_with_change"] = rc == 0
    if rc != 0: res["suite_log"] = out[-1500:]
    shutil.copy(demo, os.path.join(wt, sub, "zz_seed_demo_test.go"))
    rc, out = sh("go test -vet=off -count=1 -run 'TestSeedDemo' ./%s" % sub, cwd=wt)
    res["demo_fails_with_change"] = rc != 0 and "FAIL" in out
    res["demo_fail_log"] = out[-1200:]
    sh("git apply -R " + patch, cwd=wt)
    rc, out = sh("go test -vet=off -count=1 -run 'TestSeedDemo' ./%s" % sub, cwd=wt)
    res["demo_passes_without_change"] = rc == 0
    if rc != 0: res["demo_clean_log"] = out[-1200:]
finally:
    sh("git -C /repo worktree remove --force " + wt)
ok = all(res.get(k) for k in ("applies", "suite_passes_with_change", "demo_fails_with_change", "demo_passes_without_change"))
res["confirmed"] = ok
print(sid, "CONFIRMED" if ok else "REJECTED", {k: v for k, v in res.items() if isinstance(v, bool)})
if ok:
    d = "/verif/seeded/" + sid
    os.makedirs(d, exist_ok=True)
    shutil.copy(patch, d + "/patch.diff")
    shutil.copy(demo, d + "/demo_test.go")
    json.dump({"id": sid, "breaks_property": prop, "demo_dir": sub, "needs_to_manifest": meta_txt[:3000],
               "confirmed_by": "tools/seedconfirm.py in a scratch worktree of /repo HEAD %s: patch applies; full suite passes with the change; TestSeedDemo fails with it and passes without it" % subprocess.run("git -C /repo rev-parse --short HEAD", shell=True, capture_output=True, text=True).stdout.strip(),
               "checks": res, "detected_by": None}, open(d + "/meta.json", "w"), indent=1)
