// Command harness runs the IMPLEMENTATION (labstack/echo from /repo, built with -tags verif)
// on generated cases and writes, per case, the input, the projected observables and the
// value of the implementation-only property predicate.
package main

import (
	"bufio"
	"crypto/sha1"
	"encoding/hex"
	"encoding/json"
	"flag"
	"fmt"
	"math/rand"
	"os"
	"path/filepath"
	"sort"
	"strings"
)

// Case is one generated input with what the implementation did on it.
type Case struct {
	In    Sx     // input handed to the model as well
	Out   Sx     // projected observables of the implementation (compared with the model)
	Ok    bool   // property predicate evaluated on the implementation's observables alone
	Why   string // when !Ok: which clause failed
	Key   string // non-empty: this case is non-trivial by the property's rule; distinct keys are counted
	Human string // short readable rendering for replay files / samples
}

type propRunner struct {
	gen  func(rng *rand.Rand, n int, emit func(Case), dist map[string]int)
	rule string
}

var props = map[string]*propRunner{}

func main() {
	prop := flag.String("prop", "", "property id")
	seed := flag.Int64("seed", 1, "seed")
	n := flag.Int("n", 1000, "number of cases")
	out := flag.String("out", "", "output directory")
	conc := flag.Bool("conc", false, "run the concurrent stage of the property (binary built with -race) and print its result as JSON")
	flag.Parse()
	if *conc {
		runConc(*prop, *seed, *n)
		return
	}
	p := props[*prop]
	if p == nil {
		fmt.Fprintln(os.Stderr, "unknown property", *prop)
		os.Exit(2)
	}
	if err := os.MkdirAll(*out, 0o755); err != nil {
		panic(err)
	}
	f, err := os.Create(filepath.Join(*out, "cases.tsv"))
	if err != nil {
		panic(err)
	}
	w := bufio.NewWriterSize(f, 1<<20)
	dist := map[string]int{}
	cnt := 0
	emit := func(c Case) {
		ok := "1"
		if !c.Ok {
			ok = "0"
		}
		key := c.Key
		if key == "" {
			key = "-"
		} else if !strings.HasPrefix(key, "known:") {
			h := sha1.Sum([]byte(key))
			key = hex.EncodeToString(h[:10])
		}
		why := strings.ToValidUTF8(strings.NewReplacer("\t", " ", "\n", " ", "\r", " ").Replace(c.Why), "?") // (messages may quote paths cut inside a multi-byte character)
		if why == "" {
			why = "-"
		}
		hj, _ := json.Marshal(c.Human)
		fmt.Fprintf(w, "%s\t%s\t%s\t%s\t%s\t%s\n", Show(c.In), Show(c.Out), ok, key, why, hj)
		cnt++
	}
	p.gen(rand.New(rand.NewSource(*seed)), *n, emit, dist)
	w.Flush()
	f.Close()
	keys := make([]string, 0, len(dist))
	for k := range dist {
		keys = append(keys, k)
	}
	sort.Strings(keys)
	dj, _ := json.MarshalIndent(map[string]interface{}{"cases": cnt, "dist": dist, "rule": p.rule}, "", " ")
	os.WriteFile(filepath.Join(*out, "dist.json"), dj, 0o644)
}
