(* The statement-level translation of commonBalancer.AddTarget (Gen/Src_addtarget.v, regenerated from middleware/proxy.go on
   every run, language Base/GoLoop.v): for EVERY target list and every new target, the target is refused exactly when one of
   that NAME is already there - whatever its URL - and otherwise appended at the end, nothing else changing: the model's [add]
   (Mw/Proxy.v), on which membership, uniqueness of names and the rotation theorems rest.  (C19) *)
From Coq Require Import List ZArith Bool String Ascii.
From Echo Require Import Base.Sx Base.GoLoop Gen.Src_addtarget.
Import ListNotations.
Open Scope Z_scope.

(* a target: its name and (an identifier of) its URL *)
Definition tv (t : str * Z) : val := VL [VS (fst t); VZ (snd t)].
Definition tpred (f : string) (args : list val) : val :=
  if String.eqb f ".Name" then match args with [VL [n; _]] => n | _ => VZ 0 end
  else if String.eqb f ".URL" then match args with [VL [_; u]] => u | _ => VZ 0 end
  else if String.eqb f "append" then match args with [VL l; v] => VL (l ++ [v]) | _ => VZ 0 end
  else if String.eqb f "len" then match args with [VL l] => VZ (Z.of_nat (List.length l)) | _ => VZ 0 end
  else VZ 0.
Definition tsym (s : string) : val := VZ 0.

Section Src.
Variables (l : list (str * Z)) (t : str * Z).
Definition same_name (x : str * Z) : bool := str_eqb (fst x) (fst t).

Local Notation mk vt :=
  {| locals := [("target"%string, tv t); ("t"%string, vt)]; fields := [("b.targets"%string, VL (map tv l))];
     lists := [("b.targets"%string, map tv l)]; events := []; inputs := [] |}.

Ltac at_eval :=
  repeat (rewrite ?truthy_b2v;
          cbn [exec exec_s eval get put getl assign set_local locals fields lists events inputs String.eqb Ascii.eqb Bool.eqb
               map tl app negb andb orb fst snd as_z as_l val_eqb tsym tpred tv];
          try unfold set_local).

Lemma name_loop (F : state -> state * ctl) :
  (forall x, F (mk (tv x)) = if same_name x then (mk (tv x), Ret [VZ 0]) else (mk (tv x), Next)) ->
  forall xs vt, exists vt',
  range_loop F "t" (map tv xs) (mk vt) = if existsb same_name xs then (mk vt', Ret [VZ 0]) else (mk vt', Next).
Proof.
  intros HF xs. induction xs as [|x r IH]; intros vt.
  - exists vt. reflexivity.
  - cbn [map range_loop existsb].
    change (set_local (mk vt) "t" (tv x)) with (mk (tv x)). rewrite HF.
    destruct (same_name x); cbn [orb]; [exists (tv x); reflexivity|apply IH].
Qed.

Theorem src_add_target_spec :
  let '(st', ret) := run tsym tpred src_add_target_results src_add_target (mk (VZ 0)) in
  if existsb same_name l
  then ret = [VZ 0] /\ get (fields st') "b.targets" = VL (map tv l)
  else ret = [VZ 1] /\ get (fields st') "b.targets" = VL (map tv (l ++ [t])).
Proof.
  unfold run, src_add_target, src_add_target_results. cbn [exec]. at_eval.
  match goal with |- context [range_loop ?F "t" _ ?s] => destruct (name_loop F) with (xs := l) (vt := VZ 0) as (vt' & Hr) end.
  - intros x. at_eval. unfold same_name. destruct (str_eqb (fst x) (fst t)); reflexivity.
  - match type of Hr with ?L = _ => match goal with |- context [range_loop ?F "t" ?xs ?s] => change (range_loop F "t" xs s) with L end end.
    rewrite Hr. destruct (existsb same_name l); at_eval; [split; reflexivity|].
    split; [reflexivity|]. rewrite map_app. reflexivity.
Qed.
End Src.

Theorem C19_source_add_target : forall (l : list (str * Z)) (t : str * Z),
  let st := {| locals := [("target"%string, tv t); ("t"%string, VZ 0)]; fields := [("b.targets"%string, VL (map tv l))];
               lists := [("b.targets"%string, map tv l)]; events := []; inputs := [] |} in
  let '(st', ret) := run tsym tpred src_add_target_results src_add_target st in
  if existsb (same_name t) l
  then ret = [VZ 0] /\ get (fields st') "b.targets" = VL (map tv l)
  else ret = [VZ 1] /\ get (fields st') "b.targets" = VL (map tv (l ++ [t])).
Proof. exact src_add_target_spec. Qed.
Print Assumptions C19_source_add_target.

Example add_target_src_example :
  let l := [(lit "a", 1); (lit "b", 2)] in
  snd (run tsym tpred src_add_target_results src_add_target
         {| locals := [("target"%string, tv (lit "c", 1)); ("t"%string, VZ 0)]; fields := [("b.targets"%string, VL (map tv l))];
            lists := [("b.targets"%string, map tv l)]; events := []; inputs := [] |}) = [VZ 1]     (* another name, the URL of a: added *)
  /\ snd (run tsym tpred src_add_target_results src_add_target
         {| locals := [("target"%string, tv (lit "b", 9)); ("t"%string, VZ 0)]; fields := [("b.targets"%string, VL (map tv l))];
            lists := [("b.targets"%string, map tv l)]; events := []; inputs := [] |}) = [VZ 0].    (* the name of b: refused *)
Proof. split; vm_compute; reflexivity. Qed.
