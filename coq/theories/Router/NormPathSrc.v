(* The statement-level translation of normalizePathSlash (Gen/Src_normpath.v, regenerated from router.go on every run): what
   Router.add and Router.insert make of EVERY registered pattern before the scan looks at it.  The result always begins with
   '/', and a pattern that already does is left as it is - which is why the router theorems may speak about patterns that begin
   with '/' ([wf_toks]) without losing any registration.  (C01, C02, C20) *)
From Coq Require Import List ZArith Bool String Ascii NArith.
From Echo Require Import Base.Sx Base.GoLoop Gen.Src_normpath.
Import ListNotations.
Open Scope Z_scope.

Definition code_of (ch : ascii) : Z := Z.of_N (N_of_ascii ch).
Lemma code_slash ch : (code_of ch =? 47) = Ascii.eqb ch "/"%char.
Proof. destruct ch as [[] [] [] [] [] [] [] []]; reflexivity. Qed.

Definition npred (f : string) (args : list val) : val :=
  if String.eqb f "index" then match args with [VS s; VZ i] => VZ (code_of (nth (Z.to_nat i) s "000"%char)) | _ => VZ 0 end
  else if String.eqb f "concat" then match args with [VS a; VS b] => VS (a ++ b) | _ => VZ 0 end
  else if String.eqb f "len" then match args with [VS s] => VZ (Z.of_nat (List.length s)) | _ => VZ 0 end
  else VZ 0.
Definition nsym (s : string) : val := VZ 0.

Definition normalized (p : str) : str :=
  match p with
  | [] => lit "/"
  | c :: _ => if Ascii.eqb c "/"%char then p else ("/"%char :: p)
  end.

Theorem C01_source_normalize_path : forall p : str,
  snd (run nsym npred src_normalize_path_slash_results src_normalize_path_slash
         {| locals := [("path"%string, VS p)]; fields := []; lists := []; events := []; inputs := [] |}) = [VS (normalized p)].
Proof.
  intro p. unfold run, src_normalize_path_slash, src_normalize_path_slash_results, normalized.
  destruct p as [|c r];
    repeat (rewrite ?truthy_b2v;
            cbn [exec exec_s eval get put locals map String.eqb Ascii.eqb Bool.eqb npred nsym lit list_ascii_of_string str_eqb
                 val_eqb as_z negb snd app nth Z.to_nat]); [reflexivity|].
  rewrite code_slash. destruct (Ascii.eqb c "/"%char); reflexivity.
Qed.
Print Assumptions C01_source_normalize_path.

(* every pattern the scan of Router.insert sees begins with '/', and one that already did is unchanged *)
Corollary normalized_rooted : forall p, exists r, normalized p = "/"%char :: r.
Proof. intro p. unfold normalized. destruct p as [|c r]; [eexists; reflexivity|].
  destruct (Ascii.eqb c "/"%char) eqn:E; [apply Ascii.eqb_eq in E; subst c|]; eexists; reflexivity. Qed.
Corollary normalized_id : forall r, normalized ("/"%char :: r) = "/"%char :: r.
Proof. reflexivity. Qed.
