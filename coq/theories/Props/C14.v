(* C14 — BodyLimit: no handler ever consumes more than the limit unnoticed.
   Only property statements here; proofs are in Mw/BodyLimitProofs.v. *)
From Coq Require Import List ZArith.
From Echo Require Import Base.GoLite Gen.Src_bodylimit Gen.Src_bodylimit_fn Mw.BodyLimit Mw.BodyLimitProofs Mw.BodyLimitSrc.
Import ListNotations.
Import ListNotations.
Open Scope Z_scope.
From Echo Require Import PropLemmas.C14.

(* declared length above the limit: rejected before the handler runs *)
Theorem C14_precheck : forall L pooled declared rs,
  L < declared -> snd (serve L pooled (declared, rs)) = Rejected.
Proof. exact precheck. Qed.
Print Assumptions C14_precheck.

(* for every chunking / read-size sequence: bytes handed over before the first 413 never exceed L *)
Theorem C14_bound : forall L rs, 0 <= L -> nonneg rs -> before413 (reads L 0 rs) <= L.
Proof. exact C14_bound_l. Qed.
Print Assumptions C14_bound.

(* once over the limit every further read reports 413 *)
Theorem C14_sticky : forall L rs cnt, L < cnt -> nonneg rs ->
  Forall (fun o => snd o = R413) (reads L cnt rs).
Proof. exact sticky. Qed.
Print Assumptions C14_sticky.

(* a clean end-of-body is only ever reported while the bytes delivered so far are within L *)
Theorem C14_no_clean_eof : forall L rs, nonneg rs ->
  forall pre n post, reads L 0 rs = pre ++ (n, REOF) :: post -> delivered pre + n <= L.
Proof. exact C14_no_clean_eof_l. Qed.
Print Assumptions C14_no_clean_eof.

(* bodies of at most L bytes are passed through unchanged, errors included *)
Theorem C14_small_unchanged : forall L rs, nonneg rs -> total rs <= L ->
  reads L 0 rs = map (fun r => (fst r, lift (snd r))) rs.
Proof. exact C14_small_unchanged_l. Qed.
Print Assumptions C14_small_unchanged.

(* the count never carries over: a history of requests through one (pooled) reader is the
   map of the single-request function, whatever count the recycled reader held *)
Theorem C14_no_carry_over : forall L reqs pooled,
  serve_all L pooled reqs = map (fun r => snd (serve L 0 r)) reqs.
Proof. exact serve_all_map. Qed.
Print Assumptions C14_no_carry_over.

(* non-vacuity: a concrete over-long body in three chunks *)
Example C14_example :
  reads 5 0 [(3, ENone); (3, ENone); (0, EEOF)] = [(3, RNone); (3, R413); (0, R413)]
  /\ nonneg [(3, ENone); (3, ENone); (0, EEOF)].
Proof. split; [reflexivity|]. repeat constructor; simpl; discriminate. Qed.

From Coq Require Import String.
From Echo Require Gen.Src_mw_handlers Mw.HandlersSrc.

(* ---- the tie to the source by proof: limitedReader.Read / Reset, translated statement by statement from
   middleware/body_limit.go on every run (Gen/Src_bodylimit_fn.v, language Base/GoLite.v), compute the model's
   [rd] / [reset] for every counter, limit and answer of the wrapped reader *)
Theorem C14_source_read : forall (sym : string -> Z) cnt L n e rest,
  let '(st', ret) := GoLite.run sym src_limited_read_results src_limited_read (read_state cnt L n e rest) in
  GoLite.get (fields st') "r.read"%string = (cnt + n)%Z /\
  GoLite.get (fields st') "r.limit"%string = L /\
  ret = [n; if read_over (cnt + n) L then sym "echo.ErrStatusRequestEntityTooLarge"%string else e] /\
  events st' = [("r.reader.Read"%string, [0%Z])].
Proof. exact src_read_is_rd. Qed.
Print Assumptions C14_source_read.

Theorem C14_source_reset : forall (sym : string -> Z) cnt L rest,
  let st := {| locals := [("reader"%string, 0%Z)]; fields := ("r.read"%string, cnt) :: ("r.limit"%string, L) :: rest; events := []; inputs := [] |} in
  let '(st', _) := GoLite.run sym src_limited_reset_results src_limited_reset st in
  GoLite.get (fields st') "r.read"%string = reset_count cnt /\ GoLite.get (fields st') "r.limit"%string = L.
Proof. exact src_reset_is_reset. Qed.
Print Assumptions C14_source_reset.

(* the request handler (innermost closure) of BodyLimitWithConfig, translated from middleware/body_limit.go on every
   run (Gen/Src_mw_handlers.v): a declared length above the limit is refused before anything else; otherwise the pooled
   reader is Reset FIRST, scheduled to go back to the pool, installed as the request body, and only then next runs *)
Theorem C14_source_handler_order : forall (sym : string -> Z),
  let st := {| locals := [("c"%string, 0%Z)]; fields := []; events := []; inputs := [[0%Z]] |} in
  let '(st', ret) := GoLite.run sym Src_mw_handlers.src_body_limit_handler_results Src_mw_handlers.src_body_limit_handler st in
  if (sym "config.limit" <? sym "req.ContentLength")%Z
  then ret = [sym "echo.ErrStatusRequestEntityTooLarge"] /\ HandlersSrc.names st' = ["config.Skipper"%string]
  else ret = [sym "result of next"] /\
       HandlersSrc.names st' = ["config.Skipper"; "r.Reset"; "defer pool.Put(r)"; "next"]%string /\
       GoLite.get (fields st') "req.Body" = sym "pool.Get().(*limitedReader)".
Proof. exact HandlersSrc.src_body_limit_handler_order. Qed.
Print Assumptions C14_source_handler_order.

