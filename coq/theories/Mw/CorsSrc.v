(* The statement-level translation of the request handler of CORSWithConfig (Gen/Src_cors.v, regenerated from
   middleware/cors.go on every run, language Base/GoLoop.v) decides like the model of Mw/Cors.v: for every configuration,
   Origin and request kind the Access-Control-Allow-Origin / -Credentials headers it sets, whether it calls next, and what
   it returns are those of [cors].  (C11) *)
From Coq Require Import List ZArith Bool String Ascii Lia.
From Echo Require Import Base.Sx Net.Xff Base.GoLoop Gen.Src_cors Mw.Cors.
Import ListNotations.
Open Scope Z_scope.

Definition zb (b : bool) : Z := if b then 1 else 0.
Fixpoint bprefix (p s : string) : bool :=
  match p, s with
  | EmptyString, _ => true
  | String a p', String b s' => Ascii.eqb a b && bprefix p' s'
  | _, _ => false
  end.

(* pure functions of the environment, read as the model reads them *)
Definition cpred (p : string) (args : list val) : val :=
  match args with
  | [VS a; VS b] =>
      if String.eqb p "matchSubdomain" then b2v (match_subdomain a b)
      else if String.eqb p "strings.Contains" then
        b2v (str_eqb b (lit "://") && match after_sep a with Some _ => true | None => false end)
      else if String.eqb p ".MatchString" then b2v (rm a b)         (* a = the pattern the regexp was compiled from *)
      else VZ 0
  | [VS a] => if String.eqb p "len" then VZ (Z.of_nat (List.length a)) else VZ 0
  | _ => VZ 0
  end.

Section Src.
Variable c : ccfg.
Variable origin : str.
Variable preflight : bool.
(* the remaining constants of the closure (they shape the preflight answer, not the decision) *)
Variables (hc : bool) (am ah eh mas rh : str) (ma : Z).

Definition csym (s : string) : val :=
  if String.eqb s "req.Header.Get(echo.HeaderOrigin)" then VS origin
  else if String.eqb s "req.Method" then VZ (zb preflight)
  else if String.eqb s "http.MethodOptions" then VZ 1
  else if String.eqb s "config.AllowOriginFunc" then VZ 0
  else if String.eqb s "nil" then VZ 0
  else if String.eqb s "config.AllowCredentials" then VZ (zb (creds c))
  else if String.eqb s "config.UnsafeWildcardOriginWithAllowCredentials" then VZ (zb (unsafe_wild c))
  else if String.eqb s "result of next" then VZ 200
  else if String.eqb s "result of c.NoContent" then VZ 204
  else if String.eqb s "echo.ErrUnauthorized" then VZ 401
  else if String.eqb s "hasCustomAllowMethods" then VZ (zb hc)
  else if String.eqb s "allowMethods" then VS am
  else if String.eqb s "allowHeaders" then VS ah
  else if String.eqb s "exposeHeaders" then VS eh
  else if String.eqb s "maxAge" then VS mas
  else if String.eqb s "config.MaxAge" then VZ ma
  else if String.eqb s "req.Header.Get(echo.HeaderAccessControlRequestHeaders)" then VS rh
  else if bprefix "echo.Header" s then VS (lit s)         (* header names: distinct strings *)
  else VZ 0.

(* ---- the state while the two loops run: every local of the closure has its slot (so that assignments are in place) *)
Section Loops.
Variables vc vtmp1 vreq vres vpre vram vtam vok vallowed verr vcp vre vmatch vh : val.
Variables (flds : env) (lsts : list (string * list val)) (evs : list (string * list val)) (inps : list (list val)).

Local Notation mk vo va vcp' vre' vmatch' :=
  {| locals := [("c"%string, vc); ("tmp1"%string, vtmp1); ("req"%string, vreq); ("res"%string, vres); ("origin"%string, VS origin);
                ("allowOrigin"%string, va); ("preflight"%string, vpre); ("routerAllowMethods"%string, vram);
                ("tmpAllowMethods"%string, vtam); ("ok"%string, vok); ("allowed"%string, vallowed); ("err"%string, verr);
                ("o"%string, vo); ("checkPatterns"%string, vcp'); ("re"%string, vre'); ("match"%string, vmatch'); ("h"%string, vh)];
     fields := flds; lists := lsts; events := evs; inputs := inps |}.

(* the first loop: for _, o := range config.AllowOrigins *)
Definition stop1 (o : str) : bool := is_star o && creds c && unsafe_wild c.
Definition stop2 (o : str) : bool := is_star o || str_eqb o origin.
Definition stop3 (o : str) : bool := match_subdomain origin o.

Fixpoint loop_o (os : list str) (o0 : val) : val :=
  match os with
  | [] => o0
  | o :: r => if stop1 o || stop2 o || stop3 o then VS o else loop_o r (VS o)
  end.
Definition loop_a (os : list str) : val :=
  match allow_loop c os origin with Some v => VS v | None => VS [] end.

Lemma allow_loop_src (F : state -> state * ctl) :
  (forall o, F (mk (VS o) (VS []) vcp vre vmatch) =
     if stop1 o then (mk (VS o) (VS origin) vcp vre vmatch, Brk)
     else if stop2 o then (mk (VS o) (VS o) vcp vre vmatch, Brk)
     else if stop3 o then (mk (VS o) (VS origin) vcp vre vmatch, Brk)
     else (mk (VS o) (VS []) vcp vre vmatch, Next)) ->
  forall os o0,
  range_loop F "o" (map VS os) (mk o0 (VS []) vcp vre vmatch) = (mk (loop_o os o0) (loop_a os) vcp vre vmatch, Next).
Proof.
  intros HF os. induction os as [|o r IH]; intros o0.
  - reflexivity.
  - cbn [map range_loop].
    change (set_local (mk o0 (VS []) vcp vre vmatch) "o" (VS o)) with (mk (VS o) (VS []) vcp vre vmatch).
    rewrite HF. unfold loop_a. cbn [loop_o allow_loop]. fold (stop1 o). fold (stop2 o). fold (stop3 o).
    destruct (stop1 o); [reflexivity|].
    destruct (stop2 o); [reflexivity|].
    destruct (stop3 o); [reflexivity|].
    cbn [orb]. rewrite IH. reflexivity.
Qed.

(* the second loop: for _, re := range allowOriginPatterns *)
Fixpoint ploop_re (ps : list str) (r0 : val) : val :=
  match ps with [] => r0 | p :: r => if rm p origin then VS p else ploop_re r (VS p) end.
Fixpoint ploop_m (ps : list str) (m0 : val) : val :=
  match ps with [] => m0 | p :: r => if rm p origin then VZ 1 else ploop_m r (VZ 0) end.

Lemma pattern_loop_src (F : state -> state * ctl) vo :
  (forall p m0, F (mk vo (VS []) (VZ 1) (VS p) m0) =
     if rm p origin then (mk vo (VS origin) (VZ 1) (VS p) (VZ 1), Brk)
     else (mk vo (VS []) (VZ 1) (VS p) (VZ 0), Next)) ->
  forall ps r0 m0,
  range_loop F "re" (map VS ps) (mk vo (VS []) (VZ 1) r0 m0) =
    (mk vo (if existsb (fun p => rm p origin) ps then VS origin else VS []) (VZ 1) (ploop_re ps r0) (ploop_m ps m0), Next).
Proof.
  intros HF ps. induction ps as [|p r IH]; intros r0 m0.
  - reflexivity.
  - cbn [map range_loop].
    change (set_local (mk vo (VS []) (VZ 1) r0 m0) "re" (VS p)) with (mk vo (VS []) (VZ 1) (VS p) m0).
    rewrite HF. cbn [existsb ploop_re ploop_m].
    destruct (rm p origin); [reflexivity|]. cbn [orb]. rewrite IH. reflexivity.
Qed.
End Loops.


(* ---- the statement with the two loops, cut out of the translated body *)
Definition kmid : nat := first_range src_cors_handler.
Definition pre_part : list stmt := firstn kmid src_cors_handler.
Definition mid_stmt : stmt := nth kmid src_cors_handler SBreak.
Definition post_part : list stmt := skipn (S kmid) src_cors_handler.
Lemma src_split : src_cors_handler = (pre_part ++ mid_stmt :: post_part)%list.
Proof. vm_compute. reflexivity. Qed.

Lemma truthy_0 : truthy (VZ 0) = false.  Proof. reflexivity. Qed.
Lemma truthy_1 : truthy (VZ 1) = true.  Proof. reflexivity. Qed.
Lemma truthy_zb b : truthy (VZ (zb b)) = b.  Proof. destruct b; reflexivity. Qed.
Ltac cors_eval :=
  repeat (rewrite ?truthy_b2v, ?truthy_0, ?truthy_1, ?truthy_zb;
          cbn [exec exec_s eval get put getl assign set_local locals fields lists events inputs String.eqb Ascii.eqb Bool.eqb
               map tl app negb andb orb fst snd as_z val_eqb csym cpred lit list_ascii_of_string bprefix str_eqb zb Z.eqb Pos.eqb]).

Lemma leb_261 n : (Z.of_nat n <=? 253 + 3 + 5) = Nat.leb n 261.
Proof. destruct (Nat.leb_spec n 261); destruct (Z.leb_spec (Z.of_nat n) (253 + 3 + 5)); try reflexivity; lia. Qed.

Lemma allow_loop_nonempty os v : origin <> [] -> allow_loop c os origin = Some v -> v <> [].
Proof.
  intros Ho. induction os as [|o r IH]; cbn [allow_loop]; [discriminate|].
  destruct (is_star o && creds c && unsafe_wild c); [intros [= <-]; exact Ho|].
  destruct (is_star o) eqn:Es; cbn [orb].
  - intros [= <-]. unfold is_star in Es. destruct o; [discriminate|intro; discriminate].
  - destruct (str_eqb o origin) eqn:Eq.
    + intros [= <-]. apply str_eqb_eq in Eq. subst. exact Ho.
    + destruct (match_subdomain origin o); [intros [= <-]; exact Ho|exact IH].
Qed.
Lemma allow_origin_nonempty v : origin <> [] -> allow_origin c origin = Some v -> v <> [].
Proof.
  intros Ho. unfold allow_origin. destruct (allow_loop c (origins c) origin) eqn:EA.
  - intros [= <-]. exact (allow_loop_nonempty _ _ Ho EA).
  - destruct (_ && _ && _); [intros [= <-]; exact Ho|discriminate].
Qed.

(* the statement with the loops computes the model's [allow_origin] into allowOrigin and touches nothing but its own
   scratch variables *)
Section Mid.
Variables vc vtmp1 vreq vres vpre vram vtam vok vallowed verr vh : val.
Variables (flds : env) (evs : list (string * list val)) (inps : list (list val)).
Local Notation lsts := [("config.AllowOrigins"%string, map VS (origins c)); ("allowOriginPatterns"%string, map VS (patterns (origins c)))].
Local Notation mk vo va vcp' vre' vmatch' :=
  {| locals := [("c"%string, vc); ("tmp1"%string, vtmp1); ("req"%string, vreq); ("res"%string, vres); ("origin"%string, VS origin);
                ("allowOrigin"%string, va); ("preflight"%string, vpre); ("routerAllowMethods"%string, vram);
                ("tmpAllowMethods"%string, vtam); ("ok"%string, vok); ("allowed"%string, vallowed); ("err"%string, verr);
                ("o"%string, vo); ("checkPatterns"%string, vcp'); ("re"%string, vre'); ("match"%string, vmatch'); ("h"%string, vh)];
     fields := flds; lists := lsts; events := evs; inputs := inps |}.

Lemma mid_spec vo vcp vre vmatch :
  origin <> [] ->
  exists vo1 vcp1 vre1 vm1,
  exec_s csym cpred [] mid_stmt (mk vo (VS []) vcp vre vmatch) =
    (mk vo1 (match allow_origin c origin with Some v => VS v | None => VS [] end) vcp1 vre1 vm1, Next).
Proof.
  intros Hne.
  let m := eval vm_compute in mid_stmt in change mid_stmt with m.
  cors_eval. erewrite allow_loop_src.
  2: { intro o. unfold stop1, stop2, stop3, is_star, star.
       repeat (cors_eval;
               match goal with
               | |- context [str_eqb o ["*"%char]] => destruct (str_eqb o ["*"%char]) eqn:?
               | |- context [creds c] => destruct (creds c) eqn:?
               | |- context [unsafe_wild c] => destruct (unsafe_wild c) eqn:?
               | |- context [str_eqb o origin] => destruct (str_eqb o origin) eqn:?
               | |- context [match_subdomain origin o] => destruct (match_subdomain origin o) eqn:?
               end); first [reflexivity | congruence]. }
  unfold allow_origin, loop_a. destruct (allow_loop c (origins c) origin) as [v|] eqn:EA.
  - pose proof (allow_loop_nonempty _ _ Hne EA) as Hv. destruct v as [|v0 vt]; [congruence|].
    cors_eval. do 4 eexists. reflexivity.
  - cors_eval. rewrite leb_261.
    destruct (Nat.leb (List.length origin) 261); [destruct (after_sep origin)|]; cors_eval.
    + unfold set_local; cors_eval. erewrite pattern_loop_src.
      2: { intros p m0. repeat (cors_eval;
               match goal with
               | |- context [rm p origin] => destruct (rm p origin) eqn:?
               end); first [reflexivity | congruence]. }
      destruct (existsb (fun p : str => rm p origin) (patterns (origins c))); do 4 eexists; reflexivity.
    + do 4 eexists; reflexivity.
    + do 4 eexists; reflexivity.
Qed.
End Mid.
End Src.

(* ---- one request.  The Skipper answers false; for a preflight the router's Allow value is (tam, okf). *)
Definition start (c : ccfg) (tam : str) (okf : bool) : state :=
  {| locals := [("c"%string, VZ 0); ("tmp1"%string, VZ 0); ("req"%string, VZ 0); ("res"%string, VZ 0); ("origin"%string, VZ 0);
                ("allowOrigin"%string, VZ 0); ("preflight"%string, VZ 0); ("routerAllowMethods"%string, VZ 0);
                ("tmpAllowMethods"%string, VZ 0); ("ok"%string, VZ 0); ("allowed"%string, VZ 0); ("err"%string, VZ 0);
                ("o"%string, VZ 0); ("checkPatterns"%string, VZ 0); ("re"%string, VZ 0); ("match"%string, VZ 0); ("h"%string, VZ 0)];
     fields := [];
     lists := [("config.AllowOrigins"%string, map VS (origins c)); ("allowOriginPatterns"%string, map VS (patterns (origins c)))];
     events := []; inputs := [[VZ 0]; [VS tam; VZ (zb okf)]] |}.

Definition sets (h : string) (st : state) : list (list val) :=
  map snd (filter (fun ev => String.eqb (fst ev) "res.Header().Set" &&
                             match snd ev with v :: _ => val_eqb v (VS (lit h)) | [] => false end) (events st)).
Definition called (tag : string) (st : state) : bool := existsb (fun ev => String.eqb (fst ev) tag) (events st).

Theorem src_cors_handler_spec c origin preflight hc am ah eh mas rh ma tam okf :
  let '(st', ret) := run (csym c origin preflight hc am ah eh mas rh ma) cpred src_cors_handler_results src_cors_handler (start c tam okf) in
  let o := cors c preflight origin in
  sets "echo.HeaderAccessControlAllowOrigin" st' =
    match acao o with Some v => [[VS (lit "echo.HeaderAccessControlAllowOrigin"); VS v]] | None => [] end /\
  sets "echo.HeaderAccessControlAllowCredentials" st' =
    (if acac o then [[VS (lit "echo.HeaderAccessControlAllowCredentials"); VS (lit "true")]] else []) /\
  called "next" st' = ran o /\
  called "c.NoContent" st' = (forced o =? 204) /\
  ret = [VZ (if ran o then 200 else forced o)].
Proof.
  unfold run. rewrite src_split, exec_app.
  destruct origin as [|ch t].
  - (* no Origin header: decided before the loops *)
    destruct preflight, okf; destruct tam as [|tc tt]; vm_compute; repeat split.
  - assert (Hne : ch :: t <> []) by discriminate.
    pose proof (allow_origin_nonempty c (ch :: t)) as Hv.
    unfold cors, src_cors_handler_results, start.
    remember [("config.AllowOrigins"%string, map VS (origins c)); ("allowOriginPatterns"%string, map VS (patterns (origins c)))] as ls eqn:Els.
    (* the part before the loops is computed; the loops are [mid_spec]; the rest is computed for each outcome *)
    destruct preflight; [destruct okf; destruct tam as [|tc tt]|];
    (match goal with |- context [exec ?s ?p ?r pre_part ?st] => set (pp := exec s p r pre_part st) end;
     vm_compute in pp; subst pp ls; cbn [exec];
     (edestruct (mid_spec c (ch :: t)) as (vo1 & vcp1 & vre1 & vm1 & Hm); [exact Hne|]);
     rewrite Hm; clear Hm;
     (destruct (allow_origin c (ch :: t)) as [v|] eqn:EA;
       [pose proof (Hv v Hne eq_refl); destruct v as [|v0 vt]; [congruence|]|]);
     clear EA Hv; destruct c as [os cr uw]).
    (* preflight, allowed / refused, for the three shapes of the router's Allow value *)
    1,3,5,7: (destruct cr, hc, ah, rh, ma; vm_compute; repeat split).
    1,2,3,4: (vm_compute; repeat split).
    (* simple request *)
    + destruct cr, eh; vm_compute; repeat split.
    + vm_compute; repeat split.
Qed.
