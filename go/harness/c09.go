package main

import (
	"bytes"
	"encoding/json"
	"encoding/xml"
	"fmt"
	"math/rand"
	"mime/multipart"
	"net/http"
	"net/http/httptest"
	"net/url"
	"reflect"
	"sort"
	"strconv"
	"strings"

	"github.com/labstack/echo/v4"
)

func init() {
	props["C09"] = &propRunner{gen: genC09, rule: "destination shapes declared in the harness (tagged / untagged / differently tagged fields, nested and embedded structs, unexported fields, slices; described to the model by reflection) x request key sets (tag names, field names, case variants, keys aimed at untagged fields, unrelated keys) in path params, query string and form body x methods (GET, POST, PUT, DELETE, HEAD, OPTIONS, custom) x content types (none, form, malformed form, unsupported); every field is pre-set to a sentinel so writes are observable; non-trivial = request carrying at least one key that equals a field name or tag of another source, or a key supplied by two sources; distinct by (shape, request)"}
}

type c09Inner struct {
	City  string `query:"city" form:"city"`
	Zip   int    `query:"zip"`
	Plain string
}
type c09Embedded struct {
	Token string `header:"X-Token" query:"token"`
	Level int    `form:"level" param:"level"`
}
type c09A struct {
	ID     int    `param:"id" query:"id" form:"id" json:"id"`
	Name   string `query:"name" form:"name" json:"name"`
	Admin  bool   `json:"admin"`
	Role   string
	secret string   `query:"secret"`
	Tags   []string `query:"tags" form:"tags"`
}
type c09B struct {
	c09Embedded
	Addr   c09Inner
	Owner  string `param:"owner"`
	Nums   []int  `form:"nums" query:"nums"`
	Hidden string `json:"hidden"`
}
type c09C struct {
	Query string `query:"q"`
	Form  string `form:"q"`
	Param string `param:"q"`
	Mixed string `query:"Mixed" form:"mixed"`
	Count int    `query:"count" form:"count" param:"count"`
}

type c09D struct {
	PID   *int      `query:"pid" form:"pid" param:"pid" header:"X-Pid"`
	PName *string   `query:"pname" header:"X-Pname"`
	PTags *[]string `form:"ptags" query:"ptags"`
	Plain *string
	Inner *c09Inner // (not anonymous, no tag: a nil pointer to a struct is not descended into)
	Count int       `query:"count" form:"count" header:"X-Count"`
}

// destinations with their own conversion: bound only through an explicit tag as well
type c09Str string

func (s *c09Str) UnmarshalText(b []byte) error { *s = c09Str(b); return nil }

type c09List []string

func (l *c09List) UnmarshalParams(vs []string) error { *l = append(c09List(nil), vs...); return nil }

// narrow numeric fields: text that does not fit the field's width is an error (400), never a wrapped number
type c09F struct {
	Age   uint8   `query:"age" form:"age" param:"age" header:"X-Age"`
	Port  uint16  `query:"port" form:"port"`
	Delta int8    `query:"delta" form:"delta"`
	Ages  []uint8 `query:"ages" form:"ages"`
	Name  string  `query:"name"`
}

type c09E struct {
	c09Embedded `query:"emb"` // a tag on an anonymous struct field is an error as soon as query data is bound
	Alias       c09Str        `query:"alias" form:"alias" header:"X-Alias"`
	List        c09List       `query:"list" form:"list"`
	Name        string        `form:"name" param:"name"`
}

var c09Sources = []string{"param", "query", "form", "header"}

func c09TypeSx(t reflect.Type) Sx {
	if t.Kind() == reflect.Ptr && t.Elem().Kind() != reflect.Struct {
		t = t.Elem()
	}
	switch t.Kind() {
	case reflect.Struct:
		var fs []Sx
		for i := 0; i < t.NumField(); i++ {
			f := t.Field(i)
			var tags []Sx
			for si, s := range c09Sources {
				if v := f.Tag.Get(s); v != "" {
					tags = append(tags, L(I(si), S(v)))
				}
			}
			fs = append(fs, L(B(f.IsExported()), B(f.Anonymous), L(tags...), c09TypeSx(f.Type)))
		}
		return L(I(2), L(fs...))
	case reflect.Slice:
		return L(I(1), I(c09KindCode(t.Elem().Kind())))
	case reflect.Int, reflect.Uint8, reflect.Uint16, reflect.Int8:
		return L(I(0), I(c09KindCode(t.Kind())))
	}
	return L(I(0), I(0)) // string, bool (bool fields carry no source tags in the shapes)
}

func c09KindCode(k reflect.Kind) int {
	switch k {
	case reflect.Int:
		return 1
	case reflect.Uint8:
		return 2
	case reflect.Uint16:
		return 3
	case reflect.Int8:
		return 4
	}
	return 0
}

// c09Fits: does the decimal text fit the numeric kind (the empty text stands for 0)
func c09Fits(k reflect.Kind, v string) bool {
	if v == "" {
		return true
	}
	var err error
	switch k {
	case reflect.Int:
		_, err = strconv.ParseInt(v, 10, 64)
	case reflect.Int8:
		_, err = strconv.ParseInt(v, 10, 8)
	case reflect.Uint8:
		_, err = strconv.ParseUint(v, 10, 8)
	case reflect.Uint16:
		_, err = strconv.ParseUint(v, 10, 16)
	}
	return err == nil
}

func c09Preset(v reflect.Value) {
	for i := 0; i < v.NumField(); i++ {
		f := v.Field(i)
		if !f.CanSet() {
			continue
		}
		switch f.Kind() {
		case reflect.Ptr:
			// stays nil
		case reflect.Struct:
			c09Preset(f)
		case reflect.String:
			f.SetString("PRESET")
		case reflect.Int, reflect.Int8:
			f.SetInt(-7)
		case reflect.Uint8, reflect.Uint16:
			f.SetUint(77)
		}
	}
}

// collects (path, values) of every settable field that no longer holds its sentinel
func c09Collect(v reflect.Value, pre []int, out *[]Sx, flat map[string][]string) {
	for i := 0; i < v.NumField(); i++ {
		f := v.Field(i)
		if !v.Type().Field(i).IsExported() {
			continue
		}
		p := append(append([]int(nil), pre...), i)
		var vals []string
		changed := false
		if f.Kind() == reflect.Ptr {
			if f.IsNil() || f.Elem().Kind() == reflect.Struct {
				continue
			}
			// an allocated pointer: the pointee's value (a fresh zero value counts as bound)
			f = f.Elem()
			switch f.Kind() {
			case reflect.String:
				changed, vals = true, []string{f.String()}
			case reflect.Int:
				changed, vals = true, []string{strconv.FormatInt(f.Int(), 10)}
			case reflect.Slice:
				changed = true
				for j := 0; j < f.Len(); j++ {
					vals = append(vals, fmt.Sprint(f.Index(j).Interface()))
				}
			}
			if changed {
				var ps []Sx
				for _, x := range p {
					ps = append(ps, I(x))
				}
				*out = append(*out, L(L(ps...), LS(vals)))
				flat[fmt.Sprint(p)] = vals
			}
			continue
		}
		switch f.Kind() {
		case reflect.Struct:
			c09Collect(f, p, out, flat)
			continue
		case reflect.String:
			changed, vals = f.String() != "PRESET", []string{f.String()}
		case reflect.Int, reflect.Int8:
			changed, vals = f.Int() != -7, []string{strconv.FormatInt(f.Int(), 10)}
		case reflect.Uint8, reflect.Uint16:
			changed, vals = f.Uint() != 77, []string{strconv.FormatUint(f.Uint(), 10)}
		case reflect.Bool:
			changed, vals = f.Bool(), []string{"true"}
		case reflect.Slice:
			changed = !f.IsNil()
			for j := 0; j < f.Len(); j++ {
				vals = append(vals, fmt.Sprint(f.Index(j).Interface()))
			}
		}
		if changed {
			var ps []Sx
			for _, x := range p {
				ps = append(ps, I(x))
			}
			*out = append(*out, L(L(ps...), LS(vals)))
			flat[fmt.Sprint(p)] = vals
		}
	}
}

// reference from the property text: expected final values per field path
func c09Expect(t reflect.Type, pre []int, sources []map[string][]string, srcIdx []int, exp map[string][]string, bad *bool) {
	for i := 0; i < t.NumField(); i++ {
		f := t.Field(i)
		if !f.IsExported() {
			continue
		}
		p := append(append([]int(nil), pre...), i)
		if f.Type.Kind() == reflect.Struct {
			for k, data := range sources {
				if f.Anonymous && f.Tag.Get(c09Sources[srcIdx[k]]) != "" && len(data) > 0 {
					*bad = true // tags are not allowed on an anonymous struct field
				}
			}
			c09Expect(f.Type, p, sources, srcIdx, exp, bad)
			continue
		}
		ft := f.Type
		if ft.Kind() == reflect.Ptr {
			if ft.Elem().Kind() == reflect.Struct {
				continue
			}
			ft = ft.Elem()
		}
		for k, data := range sources {
			tag := f.Tag.Get(c09Sources[srcIdx[k]])
			if tag == "" || len(data) == 0 {
				continue
			}
			vals, okv := data[tag]
			if !okv {
				for key, v := range data {
					if strings.EqualFold(key, tag) {
						vals, okv = v, true
					}
				}
			}
			if !okv || len(vals) == 0 {
				continue
			}
			nk := ft.Kind()
			if nk == reflect.Slice {
				nk = ft.Elem().Kind()
			}
			use := vals
			if ft.Kind() != reflect.Slice {
				use = vals[:1]
			}
			if c09KindCode(nk) != 0 {
				use = append([]string(nil), use...)
				for j, v := range use {
					if !c09Fits(nk, v) {
						*bad = true
					}
					if v == "" {
						use[j] = "0" // an empty text stands for the zero value of a number
					}
				}
			}
			exp[fmt.Sprint(p)] = use
		}
	}
}

func keysOfAny(d map[string]interface{}) []string {
	var ks []string
	for k := range d {
		ks = append(ks, k)
	}
	sort.Strings(ks)
	return ks
}

func genC09(rng *rand.Rand, n int, emit func(Case), dist map[string]int) {
	e := echo.New()
	shapes := []func() interface{}{func() interface{} { return &c09A{} }, func() interface{} { return &c09B{} }, func() interface{} { return &c09C{} }, func() interface{} { return &c09D{} }, func() interface{} { return &c09E{} }, func() interface{} { return &c09F{} }}
	keyPool := []string{"id", "ID", "Id", "name", "Name", "NAME", "admin", "Admin", "role", "Role", "secret", "tags", "Tags", "city", "City", "zip", "Zip", "plain", "Plain",
		"token", "X-Token", "level", "Level", "owner", "Owner", "nums", "hidden", "Hidden", "q", "Q", "mixed", "Mixed", "count", "Count", "age", "Age", "X-Age", "port", "delta", "ages", "alias", "Alias", "X-Alias", "list", "List", "emb", "pid", "Pid", "pname", "ptags", "PTags", "X-Pid", "X-Pname", "X-Count", "other", "Addr", "addr.city", "c09Embedded", "Token", "", "", " ", "id[]", "Id[]", "name[]", "tags[]", "nums[]", "X-Token[]", "q[]"}
	vals := func(key string, k int) []string {
		var out []string
		for i := 0; i < k; i++ {
			lk := strings.ToLower(key)
			if rng.Intn(14) == 0 {
				out = append(out, "") // the key is there, its value is empty (`?id=`): for a number that is its zero value
				continue
			}
			if lk == "age" || lk == "x-age" || lk == "port" || lk == "delta" || lk == "ages" {
				out = append(out, []string{"0", "7", "127", "128", "255", "256", "300", "-1", "-128", "-129", "65535", "65536", "70000", "4294967296", "x", "1x"}[rng.Intn(16)])
			} else if lk == "id" || lk == "zip" || lk == "level" || lk == "nums" || lk == "count" || lk == "pid" || lk == "x-pid" || lk == "x-count" {
				v := strconv.Itoa(1 + rng.Intn(900))
				if rng.Intn(25) == 0 {
					v = "x" + v // malformed number
				}
				out = append(out, v)
			} else {
				out = append(out, fmt.Sprintf("v%d", rng.Intn(1000)))
			}
		}
		return out
	}
	genData := func() map[string][]string {
		d := map[string][]string{}
		seenFold := map[string]bool{}
		for k := rng.Intn(6); k > 0; k-- {
			key := keyPool[rng.Intn(len(keyPool))]
			if seenFold[strings.ToLower(key)] {
				continue // at most one spelling per key: the case-insensitive fallback ranges over a Go map
			}
			seenFold[strings.ToLower(key)] = true
			d[key] = vals(key, 1+rng.Intn(2))
		}
		return d
	}
	dataSx := func(d map[string][]string, order []string) Sx {
		var l []Sx
		for _, k := range order {
			l = append(l, L(S(k), LS(d[k])))
		}
		return L(l...)
	}
	keysOf := func(d map[string][]string) []string {
		var ks []string
		for k := range d {
			ks = append(ks, k)
		}
		// deterministic order
		for i := 0; i < len(ks); i++ {
			for j := i + 1; j < len(ks); j++ {
				if ks[j] < ks[i] {
					ks[i], ks[j] = ks[j], ks[i]
				}
			}
		}
		return ks
	}
	for it := 0; it < n; it++ {
		if rng.Intn(12) == 0 {
			// ---------------- map destinations: every key of every applicable source, later sources overriding earlier ones
			mode := rng.Intn(4) // 0 map[string]string, 1 map[string][]string, 2 map[string]interface{}, 3 map[string]int (element type not supported: nothing is bound)
			var mdst interface{}
			switch mode {
			case 0:
				mdst = &map[string]string{"kept": "PRESET"}
			case 1:
				mdst = &map[string][]string{"kept": {"PRESET"}}
			case 2:
				mdst = &map[string]interface{}{"kept": "PRESET"}
			default:
				mdst = &map[string]int{"kept": -7}
			}
			method := []string{"GET", "POST", "PUT", "DELETE", "HEAD", "PATCH"}[rng.Intn(6)]
			params, query, form := genData(), genData(), genData()
			for _, d := range []map[string][]string{params, query, form} {
				delete(d, "kept")
			}
			target := "/"
			if len(query) > 0 {
				target += "?" + url.Values(query).Encode()
			}
			bk := rng.Intn(5) // 0,1 none; 2 form; 3 malformed form; 4 unsupported
			var req *http.Request
			bodySx := L(I(0))
			var formSeen map[string][]string
			switch bk {
			case 2:
				if len(form) == 0 {
					form["other"] = []string{"x"}
				}
				req = httptest.NewRequest(method, target, strings.NewReader(url.Values(form).Encode()))
				req.Header.Set(echo.HeaderContentType, echo.MIMEApplicationForm)
				probe := httptest.NewRequest(method, target, strings.NewReader(url.Values(form).Encode()))
				probe.Header.Set(echo.HeaderContentType, echo.MIMEApplicationForm)
				probe.ParseForm()
				formSeen = map[string][]string(probe.Form) // net/http: body values followed by the URL query values (body only for POST/PUT/PATCH)
				bodySx = L(I(1), dataSx(formSeen, keysOf(formSeen)))
			case 3:
				req = httptest.NewRequest(method, target, strings.NewReader("a=%zz&b=1"))
				req.Header.Set(echo.HeaderContentType, echo.MIMEApplicationForm)
				probe := httptest.NewRequest(method, target, strings.NewReader("a=%zz&b=1"))
				probe.Header.Set(echo.HeaderContentType, echo.MIMEApplicationForm)
				if probe.ParseForm() != nil {
					bodySx = L(I(2))
				} else { // methods without a body: the query alone is "the form"
					bk, formSeen = 2, map[string][]string(probe.Form)
					bodySx = L(I(1), dataSx(formSeen, keysOf(formSeen)))
				}
			case 4:
				req = httptest.NewRequest(method, target, strings.NewReader("k=v"))
				req.Header.Set(echo.HeaderContentType, "text/plain")
				bodySx = L(I(3))
			default:
				req = httptest.NewRequest(method, target, nil)
			}
			c := recycledContext(e, req, httptest.NewRecorder())
			pk := keysOf(params)
			var pv []string
			for _, k := range pk {
				pv = append(pv, params[k][0])
				params[k] = params[k][:1]
			}
			c.SetParamNames(pk...)
			c.SetParamValues(pv...)
			err := c.Bind(mdst)
			status := 0
			if err != nil {
				status = 500
				if he, isHE := err.(*echo.HTTPError); isHE {
					status = he.Code
				}
			}
			// observed content
			got := map[string][]string{}
			mv := reflect.ValueOf(mdst).Elem()
			for _, k := range mv.MapKeys() {
				v := mv.MapIndex(k)
				if v.Kind() == reflect.Interface {
					v = v.Elem()
				}
				switch v.Kind() {
				case reflect.String:
					got[k.String()] = []string{v.String()}
				case reflect.Slice:
					var xs []string
					for j := 0; j < v.Len(); j++ {
						xs = append(xs, v.Index(j).String())
					}
					got[k.String()] = xs
				default:
					got[k.String()] = []string{fmt.Sprint(v.Interface())}
				}
			}
			// reference
			want := map[string][]string{"kept": {"PRESET"}}
			if mode == 3 {
				want["kept"] = []string{"-7"}
			}
			apply := func(d map[string][]string) {
				if mode == 3 {
					return
				}
				for k, v := range d {
					if mode == 1 {
						want[k] = v
					} else {
						want[k] = v[:1]
					}
				}
			}
			apply(params)
			if method == "GET" || method == "DELETE" || method == "HEAD" {
				apply(query)
			}
			if bk == 2 {
				apply(formSeen)
			}
			ok, why := true, ""
			switch {
			case bk == 3 && status != 400:
				ok, why = false, fmt.Sprintf("map destination: malformed form body answered %d, not 400", status)
			case bk == 4 && status != 415:
				ok, why = false, fmt.Sprintf("map destination: unsupported body answered %d, not 415", status)
			case bk != 3 && bk != 4 && status != 0:
				ok, why = false, fmt.Sprintf("map destination: well-formed request rejected with %d: %v", status, err)
			case status == 0 && fmt.Sprint(got) != fmt.Sprint(want):
				ok, why = false, fmt.Sprintf("map destination (mode %d) holds %v, the sources give %v", mode, got, want)
			}
			out := L(I(0), I(status))
			if status == 0 {
				delete(got, "kept")
				out = L(I(2), dataSx(got, keysOf(got)))
			}
			in := L(L(I(3), I(mode)), S(method), dataSx(params, pk), dataSx(query, keysOf(query)), bodySx)
			emit(Case{In: in, Out: out, Ok: ok, Why: why, Key: Show(in),
				Human: fmt.Sprintf("%T %s params=%v query=%v body-kind=%d form=%v -> status=%d map=%v", mdst, method, params, query, bk, formSeen, status, got)})
			dist["map_destination_cases"]++
			continue
		}
		dst := shapes[rng.Intn(len(shapes))]()
		c09Preset(reflect.ValueOf(dst).Elem())
		method := []string{"GET", "POST", "PUT", "DELETE", "HEAD", "OPTIONS", "REPORT", "GET", "POST"}[rng.Intn(9)]
		params, query, form := genData(), genData(), genData()
		if rng.Intn(3) == 0 {
			// the same keys again in a later source, with other values and ANOTHER NUMBER of them (possibly empty ones): the later
			// source decides the field on its own - nothing of what an earlier source wrote may remain
			overlay := func(dst, src map[string][]string) {
				have := map[string]bool{}
				for k := range dst {
					have[strings.ToLower(k)] = true
				}
				for _, k := range keysOf(src) {
					if rng.Intn(3) != 0 && (!have[strings.ToLower(k)] || dst[k] != nil) {
						dst[k] = vals(k, 1+rng.Intn(4))
						if rng.Intn(3) == 0 {
							src[k] = vals(k, 2+rng.Intn(3))
						}
					}
				}
			}
			overlay(query, params)
			overlay(form, query)
			overlay(form, params)
			dist["sources_sharing_keys"]++
		}
		forceMultipart := false
		if rng.Intn(12) == 0 {
			// a slice field filled from the query string with several values and then from a multipart body with FEWER (the URL
			// query is not merged into multipart values): the body's values are the field, nothing of the query's may remain
			method = []string{"GET", "DELETE", "HEAD"}[rng.Intn(3)]
			for _, k := range []string{"tags", "nums", "ages", "list", "ptags"} {
				if rng.Intn(2) == 0 {
					for _, d := range []map[string][]string{query, form} {
						for key := range d {
							if strings.EqualFold(key, k) {
								delete(d, key)
							}
						}
					}
					nq := 2 + rng.Intn(3)
					query[k] = vals(k, nq)
					form[k] = vals(k, 1+rng.Intn(nq-1))
				}
			}
			forceMultipart = true
			dist["query_then_shorter_multipart_slice"]++
		}
		bodyKind := rng.Intn(11) // 0,1 none; 2,3 form; 4 malformed form; 5 unsupported; 6 form; 7 JSON; 8 JSON with an error; 9 XML; 10 multipart form
		if forceMultipart {
			bodyKind = 10
		}
		if rng.Intn(10) == 0 {
			// ---------------- BindHeaders: the header source on its own
			hdrs := genData()
			req := httptest.NewRequest("GET", "/", nil)
			canon := map[string][]string{}
			for k, v := range hdrs {
				if k == "" || strings.ContainsAny(k, " []") {
					continue
				}
				for _, x := range v {
					req.Header.Add(k, x)
				}
				canon[http.CanonicalHeaderKey(k)] = req.Header.Values(k)
			}
			c := recycledContext(e, req, httptest.NewRecorder())
			err := (&echo.DefaultBinder{}).BindHeaders(c, dst)
			status := 0
			if err != nil {
				status = 500
				if he, isHE := err.(*echo.HTTPError); isHE {
					status = he.Code
				}
			}
			var got []Sx
			flat := map[string][]string{}
			c09Collect(reflect.ValueOf(dst).Elem(), nil, &got, flat)
			exp := map[string][]string{}
			bad := false
			c09Expect(reflect.TypeOf(dst).Elem(), nil, []map[string][]string{canon}, []int{3}, exp, &bad)
			ok, why := true, ""
			switch {
			case bad && status != 400:
				ok, why = false, fmt.Sprintf("BindHeaders: a value that fails conversion was answered %d, not 400", status)
			case !bad && status != 0:
				ok, why = false, fmt.Sprintf("BindHeaders: well-formed headers rejected with %d: %v", status, err)
			case status == 0:
				for p, v := range flat {
					if w, has := exp[p]; !has {
						ok, why = false, fmt.Sprintf("BindHeaders: field at path %s was set to %q although it carries no header tag naming a header that was sent (headers %v)", p, v, canon)
					} else if fmt.Sprint(w) != fmt.Sprint(v) {
						ok, why = false, fmt.Sprintf("BindHeaders: field at path %s holds %q, the header gives %q", p, v, w)
					}
				}
				for p, w := range exp {
					if _, has := flat[p]; !has {
						ok, why = false, fmt.Sprintf("BindHeaders: field at path %s should have been bound to %q", p, w)
					}
				}
			}
			out := L(I(0), I(status))
			if status == 0 {
				out = L(I(1), L(got...))
			}
			in := L(c09TypeSx(reflect.TypeOf(dst).Elem()), S("#HEADERS"), dataSx(canon, keysOf(canon)), L(), L(I(0)))
			emit(Case{In: in, Out: out, Ok: ok, Why: why, Key: Show(in),
				Human: fmt.Sprintf("%T BindHeaders headers=%v -> status=%d bound=%s", dst, canon, status, Show(L(got...)))})
			dist["bind_headers_cases"]++
			continue
		}
		target := "/"
		if len(query) > 0 {
			target += "?" + url.Values(query).Encode()
		}
		var req *http.Request
		bodySx := L(I(0))
		oracleErr := false
		oracleWrites := map[string][]string{}
		switch bodyKind {
		case 2, 3, 6:
			if len(form) == 0 {
				form["other"] = []string{"x"}
			}
			req = httptest.NewRequest(method, target, strings.NewReader(url.Values(form).Encode()))
			req.Header.Set(echo.HeaderContentType, echo.MIMEApplicationForm+"; charset=utf-8")
			bodySx = L(I(1), dataSx(form, keysOf(form)))
		case 4:
			req = httptest.NewRequest(method, target, strings.NewReader("a=%zz&b=1"))
			req.Header.Set(echo.HeaderContentType, echo.MIMEApplicationForm)
			bodySx = L(I(2))
		case 5:
			// unsupported media types, including names that merely START like a supported one, with bodies a lenient decoder would accept
			req = httptest.NewRequest(method, target, strings.NewReader([]string{"id=5", `{"id":5,"Id":5,"ID":5}`, "<x><id>5</id><Id>5</Id></x>"}[rng.Intn(3)]))
			req.Header.Set(echo.HeaderContentType, []string{"text/plain", "application/octet-stream", "", "application/x-yaml", "application/jsonl", "application/json-patch+json",
				"application/json-seq; charset=utf-8", "application/xml-dtd", "text/xml-external-parsed-entity", "application/x-www-form-urlencoded-v2", "multipart/form-data-x; boundary=b",
				"application/x-www-form-urlencodedx", "text/xmlx"}[rng.Intn(13)])
			bodySx = L(I(3))
		case 7, 8, 9:
			// JSON / XML bodies: the decoder is the oracle - what it sets on a fresh, pre-set destination is what the
			// body contributes (after path and query)
			fresh := reflect.New(reflect.TypeOf(dst).Elem()).Interface()
			c09Preset(reflect.ValueOf(fresh).Elem())
			obj := map[string]interface{}{}
			for k, v := range genData() {
				if k == "" || strings.ContainsAny(k, " []") {
					continue
				}
				lk := strings.ToLower(k)
				switch {
				case lk == "id" || lk == "zip" || lk == "level" || lk == "count" || lk == "pid":
					n, perr := strconv.Atoi(v[0])
					if perr != nil {
						obj[k] = v[0] // a string where a number is expected: a type error
					} else {
						obj[k] = n
					}
				case lk == "tags" || lk == "ptags" || lk == "nums":
					obj[k] = v
				case lk == "admin":
					obj[k] = true
				default:
					obj[k] = v[0]
				}
			}
			var raw []byte
			ctype := ""
			var derr error
			if bodyKind == 9 {
				var sb strings.Builder
				sb.WriteString("<doc>")
				for _, k := range keysOfAny(obj) {
					if lk := strings.ToLower(k); lk == "list" || lk == "tags" || lk == "ptags" || lk == "nums" {
						continue // encoding/xml APPENDS to a slice that already holds values: what the body contributes would depend on the earlier sources
					}
					if s, isStr := obj[k].(string); isStr && !strings.ContainsAny(k, ".-") {
						fmt.Fprintf(&sb, "<%s>%s</%s>", k, s, k)
					} else if n, isInt := obj[k].(int); isInt {
						fmt.Fprintf(&sb, "<%s>%d</%s>", k, n, k)
					}
				}
				sb.WriteString("</doc>")
				raw = []byte(sb.String())
				if rng.Intn(8) == 0 {
					raw = raw[:len(raw)-3] // truncated document
				}
				ctype = []string{echo.MIMEApplicationXML, echo.MIMETextXML, echo.MIMEApplicationXMLCharsetUTF8}[rng.Intn(3)]
				derr = xml.NewDecoder(bytes.NewReader(raw)).Decode(fresh)
			} else {
				raw, _ = json.Marshal(obj)
				if bodyKind == 8 {
					switch rng.Intn(3) {
					case 0:
						raw = raw[:len(raw)/2] // truncated
					case 1:
						raw = []byte(`{"id":"not-a-number","count":"x","pid":"y","Zip":"z","level":{}}`)
					default:
						raw = []byte(`[1,2,3]`)
					}
				}
				ctype = []string{echo.MIMEApplicationJSON, echo.MIMEApplicationJSON + "; charset=utf-8", "application/json;charset=UTF-8"}[rng.Intn(3)]
				derr = json.NewDecoder(bytes.NewReader(raw)).Decode(fresh)
			}
			req = httptest.NewRequest(method, target, bytes.NewReader(raw))
			req.Header.Set(echo.HeaderContentType, ctype)
			form = nil
			e.JSONSerializer = echo.DefaultJSONSerializer{}
			if rng.Intn(2) == 0 {
				e.JSONSerializer = c09Serializer{} // an application-supplied serializer that returns the decoder's plain errors
			}
			if derr != nil {
				bodySx, oracleErr = L(I(5)), true
			} else {
				var ws []Sx
				c09Collect(reflect.ValueOf(fresh).Elem(), nil, &ws, oracleWrites)
				bodySx = L(I(4), L(ws...))
			}
		case 10:
			if len(form) == 0 {
				form["other"] = []string{"x"}
			}
			var mb bytes.Buffer
			mw := multipart.NewWriter(&mb)
			for _, k := range keysOf(form) {
				for _, v := range form[k] {
					mw.WriteField(k, v)
				}
			}
			mw.Close()
			req = httptest.NewRequest(method, target, &mb)
			req.Header.Set(echo.HeaderContentType, mw.FormDataContentType())
			bodySx = L(I(1), dataSx(form, keysOf(form))) // the multipart values only: the URL query is not merged in
		default:
			req = httptest.NewRequest(method, target, nil)
			form = nil
		}
		if bodyKind == 4 || bodyKind == 5 {
			form = nil
		}
		// "form data" is what net/http's ParseForm yields for this request: for POST/PUT/PATCH the body values
		// followed by the URL query values, for other methods the URL query values only (oracle)
		if bodyKind == 2 || bodyKind == 3 || bodyKind == 6 || bodyKind == 4 {
			var probe *http.Request
			if bodyKind == 4 {
				probe = httptest.NewRequest(method, target, strings.NewReader("a=%zz&b=1"))
			} else {
				probe = httptest.NewRequest(method, target, strings.NewReader(url.Values(form).Encode()))
			}
			probe.Header.Set(echo.HeaderContentType, echo.MIMEApplicationForm)
			if perr := probe.ParseForm(); perr != nil {
				form, bodySx, bodyKind = nil, L(I(2)), 4
			} else {
				form = map[string][]string(probe.Form)
				// the case-insensitive fallback ranges over a Go map: drop requests whose merged form has two spellings of a key
				fold := map[string]int{}
				for k := range form {
					fold[strings.ToLower(k)]++
				}
				for _, c := range fold {
					if c > 1 {
						form = nil
					}
				}
				if form == nil {
					it--
					continue
				}
				bodySx = L(I(1), dataSx(form, keysOf(form)))
				if bodyKind == 4 {
					bodyKind = 2
				}
				if len(form) == 0 {
					bodySx = L(I(1), L())
				}
			}
		}
		c := recycledContext(e, req, httptest.NewRecorder())
		pk := keysOf(params)
		var pv []string
		for _, k := range pk {
			pv = append(pv, params[k][0])
			params[k] = params[k][:1]
		}
		c.SetParamNames(pk...)
		c.SetParamValues(pv...)
		var err error
		panicked := false
		func() {
			defer func() {
				if r := recover(); r != nil {
					panicked = true
				}
			}()
			err = c.Bind(dst)
		}()
		status := 0
		if err != nil {
			status = 500
			if he, isHE := err.(*echo.HTTPError); isHE {
				status = he.Code
			}
		}
		var got []Sx
		flat := map[string][]string{}
		c09Collect(reflect.ValueOf(dst).Elem(), nil, &got, flat)
		// ---- reference
		useQuery := method == "GET" || method == "DELETE" || method == "HEAD"
		var srcs []map[string][]string
		var idx []int
		srcs, idx = append(srcs, params), append(idx, 0)
		if useQuery {
			srcs, idx = append(srcs, query), append(idx, 1)
		}
		if form != nil {
			srcs, idx = append(srcs, form), append(idx, 2)
		}
		exp := map[string][]string{}
		bad := false
		c09Expect(reflect.TypeOf(dst).Elem(), nil, srcs, idx, exp, &bad)
		for p, v := range oracleWrites {
			exp[p] = v // the body comes last
		}
		ok, why := true, ""
		switch {
		case panicked:
			ok, why = false, "Bind panicked"
		case oracleErr && status != 400:
			ok, why = false, fmt.Sprintf("a JSON/XML body the decoder rejects was answered %d, not 400", status)
		case oracleErr:
		case bodyKind == 5 && status != 415 && !bad:
			ok, why = false, fmt.Sprintf("non-empty body of unsupported type answered %d, not 415", status)
		case bodyKind == 4 && status != 400 && !bad:
			ok, why = false, fmt.Sprintf("malformed form body answered %d, not 400", status)
		case bad && status != 400:
			ok, why = false, fmt.Sprintf("a value that fails conversion was answered %d, not 400", status)
		case !bad && bodyKind != 4 && bodyKind != 5 && status != 0:
			ok, why = false, fmt.Sprintf("well-formed request rejected with %d: %v", status, err)
		case status == 0:
			for p, v := range flat {
				if w, has := exp[p]; !has {
					ok, why = false, fmt.Sprintf("field at path %s was set to %q although no source carries its tag (params=%v query=%v form=%v, method %s)", p, v, params, query, form, method)
				} else if fmt.Sprint(w) != fmt.Sprint(v) {
					ok, why = false, fmt.Sprintf("field at path %s holds %q, the last supplying source gives %q", p, v, w)
				}
			}
			for p, w := range exp {
				if _, has := flat[p]; !has {
					ok, why = false, fmt.Sprintf("field at path %s should have been bound to %q", p, w)
				}
			}
		}
		out := L(I(0), I(status))
		if status == 0 {
			out = L(I(1), L(got...))
		}
		in := L(c09TypeSx(reflect.TypeOf(dst).Elem()), S(method), dataSx(params, pk), dataSx(query, keysOf(query)), bodySx)
		cs := Case{In: in, Out: out, Ok: ok, Why: why,
			Human: fmt.Sprintf("%T %s params=%v query=%v body-kind=%d form=%v -> status=%d bound=%s", dst, method, params, query, bodyKind, form, status, Show(L(got...)))}
		if len(params)+len(query)+len(form) >= 2 {
			cs.Key = Show(in)
		}
		dist["method_"+method]++
		dist[fmt.Sprintf("status_%d", status)]++
		emit(cs)
	}
}

// c09Serializer is a custom JSON serializer: it hands back encoding/json's own errors, not HTTP errors.
type c09Serializer struct{}

func (c09Serializer) Serialize(c echo.Context, i interface{}, indent string) error {
	return json.NewEncoder(c.Response()).Encode(i)
}
func (c09Serializer) Deserialize(c echo.Context, i interface{}) error {
	return json.NewDecoder(c.Request().Body).Decode(i)
}
