(* C03 — 404 / 405 / OPTIONS contract and truthful Allow.  Statements only; proofs in Router/Top.v,
   Router/Allow.v.  [Miss None] = 404; [Miss (Some b)] = 405 (OPTIONS: 204) whose Allow lists OPTIONS
   and the methods registered at the pattern position b (Glue/GRouter.v allow_of).
   [matchQ]: pattern instance relation incl. echo's documented quirk (a parameter ending the pattern
   may absorb the rest). *)
From Coq Require Import List Arith Bool Ascii String Permutation.
From Echo.Router Require Import Spec2 Fuel Refine Insert InsProof Walk Live Toks Build Sound Complete Allow Top Methods.
From Echo Require Import Gen.Src_methods.
Import ListNotations.
From Echo Require Import PropLemmas.C03.

(* a path no registered pattern (of any method, RouteNotFound included) matches: 404 *)
Theorem C03_404 : forall rs m p, wf_table rs ->
  (forall r, In r rs -> ~ matchQ (rt_toks r) p) -> dispatch (build rs) m p = Miss None.
Proof. exact instance_404. Qed.
Print Assumptions C03_404.

(* 404 is independent of the method; hence a path matched by some route of another method is never 404 *)
Theorem C03_404_method_independent : forall rs m m' p, wf_table rs ->
  dispatch (build rs) m p = Miss None -> dispatch (build rs) m' p = Miss None.
Proof. exact instance_404_method_indep. Qed.
Print Assumptions C03_404_method_independent.

Theorem C03_matched_by_other_method_not_404 : forall rs m m' p r, wf_table rs -> m' <> NF ->
  In r rs -> rt_m r = m' -> matchT (rt_toks r) p -> dispatch (build rs) m p <> Miss None.
Proof. exact C03_matched_by_other_method_not_404_l. Qed.
Print Assumptions C03_matched_by_other_method_not_404.

(* every method advertised for the 405 position, sent to the same path, is really served *)
Theorem C03_allow_truthful : forall rs m m' p b r', wf_table rs -> m' <> NF ->
  dispatch (build rs) m p = Miss (Some b) -> In r' rs -> rt_toks r' = b -> rt_m r' = m' ->
  is_found (dispatch (build rs) m' p).
Proof. exact instance_allow_truthful. Qed.
Print Assumptions C03_allow_truthful.

(* the four hand-written method <-> slot tables of router.go (regenerated from the source on every run):
   each of the 11 built-in methods is read from the slot it is written to, that slot makes the node a handler
   node and Allow advertises it under the method's own name; custom methods go through the per-name map in
   all places; the not-found pseudo method is neither a handler slot nor ever advertised *)
Theorem C03_tables_agree : tables_ok = true.
Proof. exact tables_agree. Qed.
Print Assumptions C03_tables_agree.

Theorem C03_method_agrees : forall m, In m standard_methods -> method_ok m = true.
Proof. exact method_agrees. Qed.
Print Assumptions C03_method_agrees.
