From Coq Require Import List ZArith Lia Bool.
From Echo Require Import Gen.Src_bodylimit Mw.BodyLimit.
Import ListNotations.
Open Scope Z_scope.

(* what the theorems need from the generated comparisons (re-proved against the current source) *)
Lemma read_over_spec r l : read_over r l = (l <? r).
Proof. reflexivity. Qed.
Lemma precheck_over_spec d l : precheck_over d l = (l <? d).
Proof. reflexivity. Qed.
Lemma reset_count_spec p : reset_count p = 0.
Proof. reflexivity. Qed.

Section Reader.
Variable L : Z.

Lemma bound : forall rs cnt, 0 <= cnt -> nonneg rs ->
  cnt + before413 (reads L cnt rs) <= Z.max cnt L.
Proof.
  induction rs as [|[n e] rs IH]; intros cnt Hc Hn; simpl; [lia|].
  inversion Hn as [|? ? H1 H2]; subst. simpl in H1.
  rewrite read_over_spec. destruct (L <? cnt + n) eqn:E; simpl.
  - lia.
  - apply Z.ltb_ge in E. specialize (IH (cnt + n) ltac:(lia) H2).
    destruct e; simpl; lia.
Qed.

Lemma sticky : forall rs cnt, L < cnt -> nonneg rs ->
  Forall (fun o => snd o = R413) (reads L cnt rs).
Proof.
  induction rs as [|[n e] rs IH]; intros cnt Hc Hn; simpl; [constructor|].
  inversion Hn as [|? ? H1 H2]; subst. simpl in H1.
  assert (E : L <? cnt + n = true) by (apply Z.ltb_lt; lia). rewrite read_over_spec, E.
  constructor; [reflexivity|]. apply IH; auto. lia.
Qed.

Lemma eof_means_small : forall rs cnt, 0 <= cnt -> nonneg rs ->
  forall pre n post, reads L cnt rs = pre ++ (n, REOF) :: post -> cnt + delivered pre + n <= L.
Proof.
  induction rs as [|[m e] rs IH]; intros cnt Hc Hn pre n post H; simpl in H.
  - destruct pre; discriminate.
  - inversion Hn as [|? ? H2 H3]; subst. simpl in H2.
    destruct pre as [|p pre].
    + simpl in H. rewrite read_over_spec in H. inversion H; subst. destruct (L <? cnt + n) eqn:E; [discriminate|].
      apply Z.ltb_ge in E. simpl. lia.
    + simpl in H. inversion H; subst. simpl.
      specialize (IH (cnt + m) ltac:(lia) H3 pre n post H4). lia.
Qed.

Lemma total_nonneg rs : nonneg rs -> 0 <= total rs.
Proof. induction 1; simpl; lia. Qed.

Lemma small_unchanged : forall rs cnt, 0 <= cnt -> nonneg rs -> cnt + total rs <= L ->
  reads L cnt rs = map (fun r => (fst r, lift (snd r))) rs.
Proof.
  induction rs as [|[n e] rs IH]; intros cnt Hc Hn Ht; simpl; [reflexivity|].
  inversion Hn as [|? ? H1 H2]; subst. simpl in H1, Ht.
  pose proof (total_nonneg rs H2).
  assert (E : L <? cnt + n = false) by (apply Z.ltb_ge; lia). rewrite read_over_spec, E. f_equal.
  apply IH; auto; lia.
Qed.

(* a body longer than L read to its end (the underlying reader reports EOF only when
   all bytes were delivered): some read reports 413 and no clean EOF is seen *)
Lemma long_body_no_eof : forall rs cnt, 0 <= cnt -> nonneg rs -> L < cnt + total rs ->
  ~ In REOF (map snd (reads L cnt rs)) \/
  exists pre n post, reads L cnt rs = pre ++ (n, REOF) :: post /\ cnt + delivered pre + n < cnt + total rs.
Proof.
  intros rs cnt Hc Hn Hl.
  destruct (in_dec (fun a b : rerr => ltac:(decide equality) : {a = b} + {a <> b})
              REOF (map snd (reads L cnt rs))) as [Hin|Hnin]; [right|left; exact Hnin].
  apply in_map_iff in Hin as [[n e] [He Hin]]. simpl in He; subst e.
  apply in_split in Hin as [pre [post Hs]].
  exists pre, n, post. split; [exact Hs|].
  pose proof (eof_means_small rs cnt Hc Hn pre n post Hs). lia.
Qed.

(* the pre-check *)
Lemma precheck pooled declared rs : L < declared -> snd (serve L pooled (declared, rs)) = Rejected.
Proof. intro H. unfold serve. rewrite precheck_over_spec. apply Z.ltb_lt in H. rewrite H. reflexivity. Qed.

(* no carry-over: what a request observes does not depend on the recycled reader's count *)
Lemma no_carry_over p1 p2 req : snd (serve L p1 req) = snd (serve L p2 req).
Proof. destruct req as [d rs]. unfold serve, reset. rewrite !reset_count_spec. destruct (precheck_over d L); reflexivity. Qed.

Lemma serve_all_indep : forall reqs p1 p2, serve_all L p1 reqs = serve_all L p2 reqs.
Proof.
  induction reqs as [|[d rs] reqs IH]; intros p1 p2; simpl; [reflexivity|].
  unfold reset. rewrite !reset_count_spec. destruct (precheck_over d L); simpl; f_equal; apply IH.
Qed.

(* hence a history is the map of the single-request function *)
Lemma serve_all_map : forall reqs p, serve_all L p reqs = map (fun r => snd (serve L 0 r)) reqs.
Proof.
  induction reqs as [|[d rs] reqs IH]; intros p; simpl; [reflexivity|].
  unfold reset. rewrite !reset_count_spec. destruct (precheck_over d L); simpl; f_equal; apply IH.
Qed.
End Reader.
