(* Glue shared by C01 C02 C03 C20: decodes a route table, builds the radix tree by replaying the
   insertNode call sequence (Router/Insert.v, Build.v) and dispatches a request on it. *)
From Coq Require Import List ZArith Bool Ascii String Arith NArith.
From Echo Require Import Base.Sx.
From Echo.Router Require Import Spec2 Fuel Refine Insert InsProof Walk Live Toks Build Sound Reverse Top Tail Host.
Import ListNotations.
Open Scope char_scope.
Open Scope nat_scope.

(* parameter names as Router.insert collects them *)
Fixpoint parse_names (fuel : nat) (p : Spec2.str) : list Spec2.str :=
  match fuel with O => [] | S f =>
  match p with
  | [] => []
  | c :: r =>
    if Ascii.eqb c bslash then
      match r with
      | c2 :: r2 => if Ascii.eqb c2 colon then parse_names f r2 else parse_names f r
      | [] => []
      end
    else if Ascii.eqb c colon then take_seg r :: parse_names f (drop_seg r)
    else if Ascii.eqb c starc then [[starc]]
    else parse_names f r
  end end.

(* Echo.Add: "" -> "/", missing leading slash added *)
Definition norm_path (p : Spec2.str) : Spec2.str :=
  match p with [] => ["/"] | c :: _ => if Ascii.eqb c "/" then p else "/" :: p end.

Definition mk_rt (id : nat) (m p : Spec2.str) : rt :=
  let p := norm_path p in
  let f := S (List.length p) in
  {| rt_m := m; rt_toks := parse_pat f p; rt_rm := (parse_names f p, id) |}.

Fixpoint mk_table (id : nat) (rs : list sx) : list rt :=
  match rs with
  | [] => []
  | r :: t => mk_rt id (as_str (nth_sx 0 r)) (as_str (nth_sx 1 r)) :: mk_table (S id) t
  end.

(* sorting method names for a canonical Allow set *)
Fixpoint str_leb (a b : Spec2.str) : bool :=
  match a, b with
  | [], _ => true
  | _ :: _, [] => false
  | x :: a', y :: b' => if N.ltb (N_of_ascii x) (N_of_ascii y) then true
                        else if N.ltb (N_of_ascii y) (N_of_ascii x) then false else str_leb a' b'
  end.
Fixpoint ins_sorted (x : Spec2.str) (l : list Spec2.str) : list Spec2.str :=
  match l with
  | [] => [x]
  | y :: r => if Spec2.str_eqb x y then l else if str_leb x y then x :: l else y :: ins_sorted x r
  end.
Definition sort_strs (l : list Spec2.str) : list Spec2.str := fold_right ins_sorted [] l.

Definition options_m : Spec2.str := list_ascii_of_string "OPTIONS".

(* methods registered at the 405-candidate position *)
Definition allow_of (rs : list rt) (pre : list tok) : list Spec2.str :=
  sort_strs (options_m :: map rt_m (filter (fun r => toks_eqb (rt_toks r) pre && negb (Spec2.str_eqb (rt_m r) NF)) rs)).

Definition enc_out (rs : list rt) (m : Spec2.str) (o : outcome) : sx :=
  match o with
  | Served rt0 vals => SL [SZ 200; of_nat (r_id rt0); SL (map SS (r_names rt0)); SL (map SS vals)]
  | NotFound => SL [SZ 404]
  | NotAllowed pre => SL [SZ (if Spec2.str_eqb m options_m then 204 else 405); SL (map SS (allow_of rs pre))]
  end.

(* input: (((method pattern) ...) method path)  *)
Definition route_sx (x : sx) : sx :=
  let rs := mk_table 0 (as_list (nth_sx 0 x)) in
  let m := as_str (nth_sx 1 x) in
  enc_out rs m (route_request rs m (as_str (nth_sx 2 x))).

(* input with hosts: ((host ((method pattern) ...)) ...) request-host method path; host "" = default router.
   The selection is the model's [find_router] (Router/Host.v). *)
Fixpoint default_table (hs : list sx) : list sx :=
  match hs with
  | [] => []
  | x :: r => if Spec2.str_eqb (as_str (nth_sx 0 x)) [] then as_list (nth_sx 1 x) else default_table r
  end.
Definition host_sx (x : sx) : sx :=
  let hs := as_list (nth_sx 0 x) in
  let named := map (fun e => (as_str (nth_sx 0 e), mk_table 0 (as_list (nth_sx 1 e))))
                   (filter (fun e => negb (Spec2.str_eqb (as_str (nth_sx 0 e)) [])) hs) in
  let dflt := mk_table 0 (default_table hs) in
  let h := as_str (nth_sx 1 x) in
  let m := as_str (nth_sx 2 x) in
  enc_out (find_router named dflt h) m (host_request named dflt h m (as_str (nth_sx 3 x))).

(* Router.Reverse: input (pattern (value ...)) *)
Definition reverse_sx (x : sx) : sx :=
  let p := as_str (nth_sx 0 x) in
  SS (reverse (S (List.length p)) p (map as_str (as_list (nth_sx 1 x)))).

(* ---------- structural dump of the radix tree (compared with echo's real tree after every registration):
   (kind prefix (method ...) has-notfound is-leaf is-handler (static child ...) param-child|() any-child|())
   methods and static children sorted *)
Fixpoint ins_node_sorted (x : sx * Spec2.str) (l : list (sx * Spec2.str)) : list (sx * Spec2.str) :=
  match l with
  | [] => [x]
  | y :: r => if str_leb (snd x) (snd y) then x :: l else y :: ins_node_sorted x r
  end.
Fixpoint tree_sx (n : node) {struct n} : sx :=
  match n with
  | Node k pfx ms nf st pc ac =>
    let kids := (fix go (l : list node) : list (sx * Spec2.str) :=
                   match l with [] => [] | c :: l' => (tree_sx c, n_pfx c) :: go l' end) st in
    SL [SZ (match k with KS => 0 | KP => 1 | KA => 2 end)%Z; SS pfx;
        SL (map SS (sort_strs (map fst ms)));
        of_bool (match nf with Some _ => true | None => false end);
        of_bool (match st, pc, ac with [], None, None => true | _, _, _ => false end);
        of_bool (match ms with [] => false | _ => true end);
        SL (map fst (fold_right ins_node_sorted [] kids));
        match pc with Some c => tree_sx c | None => SL [] end;
        match ac with Some c => tree_sx c | None => SL [] end]
  end.
Definition dump_sx (x : sx) : sx := tree_sx (build (mk_table 0 (as_list (nth_sx 0 x)))).

(* tagged union: (0 table m p) route, (1 hosts host m p), (2 pattern values) reverse, (3 table) tree dump *)
Definition run_sx (x : sx) : sx :=
  match as_Z (nth_sx 0 x) with
  | 0%Z => route_sx (SL (tl (as_list x)))
  | 1%Z => host_sx (SL (tl (as_list x)))
  | 3%Z => dump_sx (SL (tl (as_list x)))
  | _ => reverse_sx (SL (tl (as_list x)))
  end.
