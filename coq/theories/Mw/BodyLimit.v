(* Model of middleware/body_limit.go (C14): pre-check on the declared length and the
   counting reader limitedReader, with the pooled reader's count as explicit state. *)
From Coq Require Import List ZArith Bool.
From Echo Require Import Gen.Src_bodylimit.
Import ListNotations.
Open Scope Z_scope.

Inductive uerr := ENone | EEOF | EOther.                 (* error of the underlying reader *)
Inductive rerr := RNone | REOF | ROther | R413.          (* error seen by the handler *)
Definition lift (e : uerr) : rerr :=
  match e with ENone => RNone | EEOF => REOF | EOther => ROther end.

Section Reader.
Variable L : Z.

(* limitedReader.Read: n, err = reader.Read(b); read += n; if read > limit then 413 *)
Definition rd (cnt : Z) (res : Z * uerr) : Z * (Z * rerr) :=
  let '(n, e) := res in
  let cnt' := cnt + n in (cnt', (n, if read_over cnt' L then R413 else lift e)).

(* a handler reading with an arbitrary chunking = list of underlying read results *)
Fixpoint reads (cnt : Z) (rs : list (Z * uerr)) : list (Z * rerr) :=
  match rs with [] => [] | r :: t => let '(c', o) := rd cnt r in o :: reads c' t end.

Fixpoint final_count (cnt : Z) (rs : list (Z * uerr)) : Z :=
  match rs with [] => cnt | r :: t => final_count (fst (rd cnt r)) t end.

(* one request through the middleware: declared Content-Length (-1 = unknown) and the
   underlying read results; [pooled] is the count left in the recycled reader *)
Inductive served := Rejected | Served (os : list (Z * rerr)).

Definition reset (pooled : Z) : Z := reset_count pooled.   (* limitedReader.Reset, from Gen *)

Definition serve (pooled : Z) (req : Z * list (Z * uerr)) : Z * served :=
  let '(declared, rs) := req in
  if precheck_over declared L then (pooled, Rejected)
  else let c0 := reset pooled in (final_count c0 rs, Served (reads c0 rs)).

Fixpoint serve_all (pooled : Z) (reqs : list (Z * list (Z * uerr))) : list served :=
  match reqs with
  | [] => []
  | r :: t => let '(p', o) := serve pooled r in o :: serve_all p' t
  end.
End Reader.

Definition delivered (os : list (Z * rerr)) : Z := fold_right (fun o acc => fst o + acc) 0 os.
Definition total (rs : list (Z * uerr)) : Z := fold_right (fun o acc => fst o + acc) 0 rs.
Definition nonneg (rs : list (Z * uerr)) : Prop := Forall (fun r => 0 <= fst r) rs.

(* bytes handed over strictly before the first 413 *)
Fixpoint before413 (os : list (Z * rerr)) : Z :=
  match os with [] => 0 | (n, R413) :: _ => 0 | (n, _) :: t => n + before413 t end.
