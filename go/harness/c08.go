package main

import (
	"fmt"
	"math"
	"math/big"
	"math/rand"
	"net/http"
	"net/http/httptest"
	"net/url"
	"reflect"
	"regexp"
	"strconv"
	"strings"
	"time"

	"github.com/labstack/echo/v4"
)

func init() {
	props["C08"] = &propRunner{gen: genC08, rule: "chains of 1-3 typed ValueBinder calls (all exported int/uint/float/bool scalar and slice methods found by reflection, fail-fast on/off, binder reused after BindErrors) and struct binding of every numeric/bool kind (plain, pointer, slice; destination pre-set to a non-zero value) x texts: decimal boundaries of every width +-1, signs, leading zeros/plus, whitespace, hex/underscore/exponent forms, unicode digits, 40-digit numbers, empty; non-trivial = some text is within 2 of a width boundary or malformed, or the chain has an error followed by another call; distinct by full input"}
}

var c08Int = regexp.MustCompile(`^[+-]?[0-9]+$`)
var c08Uint = regexp.MustCompile(`^[0-9]+$`)

// reference from the property text: the decimal value if it fits, else nil
func c08Ref(signed bool, width int, s string) *big.Int {
	if signed && !c08Int.MatchString(s) || !signed && !c08Uint.MatchString(s) {
		return nil
	}
	z, _ := new(big.Int).SetString(strings.TrimPrefix(s, "+"), 10)
	lo, hi := big.NewInt(0), new(big.Int).Lsh(big.NewInt(1), uint(width))
	if signed {
		hi = new(big.Int).Lsh(big.NewInt(1), uint(width-1))
		lo = new(big.Int).Neg(hi)
	}
	if z.Cmp(lo) < 0 || z.Cmp(hi) >= 0 {
		return nil
	}
	return z
}

func c08Texts(rng *rand.Rand) []string {
	var t []string
	for _, w := range []uint{7, 8, 15, 16, 31, 32, 63, 64} {
		p := new(big.Int).Lsh(big.NewInt(1), w)
		for _, d := range []int64{-2, -1, 0, 1} {
			v := new(big.Int).Add(p, big.NewInt(d))
			t = append(t, v.String(), "-"+v.String(), "+"+v.String())
		}
	}
	t = append(t, "0", "-0", "+0", "007", "-007", "1", "-1", "42", "", " 1", "1 ", "0x10", "1_000", "1e3", "١٢", "１２", "12a", "--1", "+-1", "+", "-",
		strings.Repeat("9", 40), "-"+strings.Repeat("9", 40), "1.0", "1.5", "true", "0b1", "0o7", "\t5", "5\n", "1e39", "-1e39", "inf", "NaN", "0x1p-2", "3.4028235e38", "3.5e38", "T", "TRUE", "yes", "False",
		"1s", "1h30m", "-5ms", "1.5h", "9223372036854775807ns", "9223372036854775808ns", "1d", "1e3s", " 1s", "1H", "+1m", "100000000000h", ".5s", "1.s", "1..s",
		"µs", "1µs", "1us", "2562047h47m16.854775807s", "2562047h47m16.854775808s", "-2562047h47m16.854775808s", "1h1h", "0.000000001ns", "1m-1s", "t", "F", "1.0e0", "-0.0", "0x1.8p1",
		" ", "\t", "  ", "\r\n", " \t ", "\u00a0", "\u2003", "\u0085") // blank but not empty: text that denotes no number
	return t
}

func c08IsBoundary(s string) bool {
	return len(s) == 0 || !c08Int.MatchString(s) || len(strings.TrimLeft(s, "+-0")) >= 3
}

func genC08(rng *rand.Rand, n int, emit func(Case), dist map[string]int) {
	texts := c08Texts(rng)
	e := echo.New()
	vbT := reflect.TypeOf(&echo.ValueBinder{})
	type meth struct {
		name  string
		elem  reflect.Type
		slice bool
	}
	var meths []meth
	for i := 0; i < vbT.NumMethod(); i++ {
		m := vbT.Method(i)
		if m.Type.NumIn() != 3 || m.Type.In(1).Kind() != reflect.String || m.Type.In(2).Kind() != reflect.Ptr {
			continue
		}
		el := m.Type.In(2).Elem()
		sl := false
		if el.Kind() == reflect.Slice {
			sl, el = true, el.Elem()
		}
		switch el.Kind() {
		case reflect.Int, reflect.Int8, reflect.Int16, reflect.Int32, reflect.Int64, reflect.Uint, reflect.Uint8, reflect.Uint16, reflect.Uint32, reflect.Uint64, reflect.Float32, reflect.Float64, reflect.Bool:
			if el.PkgPath() == "" || el == reflect.TypeOf(time.Duration(0)) {
				meths = append(meths, meth{m.Name, el, sl})
			}
		}
	}
	dist["binder_methods_found"] = len(meths)
	signed := func(k reflect.Kind) bool { return k >= reflect.Int && k <= reflect.Int64 }
	isInt := func(k reflect.Kind) bool { return k >= reflect.Int && k <= reflect.Uint64 }
	bigOf := func(v reflect.Value) *big.Int {
		if signed(v.Kind()) {
			return big.NewInt(v.Int())
		}
		return new(big.Int).SetUint64(v.Uint())
	}
	durT := reflect.TypeOf(time.Duration(0))
	// family and bit size as in the generated tables: 0 int, 1 uint, 2 float (IEEE bits at that width), 3 bool (0/1), 4 duration (ns)
	famBits := func(t reflect.Type) (int, int) {
		switch {
		case t == durT:
			return 4, 64
		case signed(t.Kind()):
			return 0, t.Bits()
		case isInt(t.Kind()):
			return 1, t.Bits()
		case t.Kind() == reflect.Bool:
			return 3, 1
		}
		return 2, t.Bits()
	}
	encVal := func(v reflect.Value) Sx {
		switch {
		case isInt(v.Kind()):
			return Big(bigOf(v))
		case v.Kind() == reflect.Bool:
			return B(v.Bool())
		case v.Kind() == reflect.Float32:
			return Big(new(big.Int).SetUint64(uint64(math.Float32bits(float32(v.Float())))))
		}
		return Big(new(big.Int).SetUint64(math.Float64bits(v.Float())))
	}
	// what the library parser answers for the text (the oracle handed to the model)
	oracle := func(t reflect.Type, text string) Sx {
		f, b := famBits(t)
		switch f {
		case 2:
			x, err := strconv.ParseFloat(text, b)
			if err != nil {
				return L(I(f), I(b), S(text), B(false), I(0))
			}
			v := reflect.New(t).Elem()
			v.SetFloat(x)
			return L(I(f), I(b), S(text), B(true), encVal(v))
		case 3:
			x, err := strconv.ParseBool(text)
			return L(I(f), I(b), S(text), B(err == nil), B(x))
		case 4:
			x, err := time.ParseDuration(text)
			return L(I(f), I(b), S(text), B(err == nil), Big(big.NewInt(int64(x))))
		}
		return nil
	}
	type structT struct {
		I   int      `query:"i" param:"i" header:"i" form:"i"`
		I8  int8     `query:"i8" param:"i8" header:"i8" form:"i8"`
		I16 int16    `query:"i16" param:"i16" header:"i16" form:"i16"`
		I32 int32    `query:"i32" param:"i32" header:"i32" form:"i32"`
		I64 int64    `query:"i64" param:"i64" header:"i64" form:"i64"`
		U   uint     `query:"u" param:"u" header:"u" form:"u"`
		U8  uint8    `query:"u8" param:"u8" header:"u8" form:"u8"`
		U16 uint16   `query:"u16" param:"u16" header:"u16" form:"u16"`
		U32 uint32   `query:"u32" param:"u32" header:"u32" form:"u32"`
		U64 uint64   `query:"u64" param:"u64" header:"u64" form:"u64"`
		B   bool     `query:"b" param:"b" header:"b" form:"b"`
		F32 float32  `query:"f32" param:"f32" header:"f32" form:"f32"`
		F64 float64  `query:"f64" param:"f64" header:"f64" form:"f64"`
		PI8 *int8    `query:"pi8" param:"pi8" header:"pi8" form:"pi8"`
		PU  *uint16  `query:"pu16" param:"pu16" header:"pu16" form:"pu16"`
		SI8 []int8   `query:"si8" param:"si8" header:"si8" form:"si8"`
		SU  []uint32 `query:"su32" param:"su32" header:"su32" form:"su32"`
	}
	encStr := func(x string) *big.Int { return new(big.Int).SetBytes(append([]byte{1}, x...)) }
	encTime := func(t time.Time) *big.Int {
		z := new(big.Int).Mul(big.NewInt(t.Unix()), big.NewInt(1_000_000_000))
		return z.Add(z, big.NewInt(int64(t.Nanosecond())))
	}
	for it := 0; it < n; it++ {
		pick := func() string { return texts[rng.Intn(len(texts))] }
		if rng.Intn(8) == 0 {
			// ---------------- the scalar methods binder.go writes out by hand: unmarshaler destinations, String, Unix times
			ff := rng.Intn(2) == 0
			q := url.Values{}
			type xcall struct {
				name, param, text string
				tu                c08Text
				str               string
				tm                time.Time
			}
			var xs []*xcall
			names := []string{"TextUnmarshaler", "MustTextUnmarshaler", "BindUnmarshaler", "MustBindUnmarshaler", "JSONUnmarshaler", "MustJSONUnmarshaler",
				"String", "MustString", "UnixTime", "MustUnixTime", "UnixTimeMilli", "MustUnixTimeMilli", "UnixTimeNano", "MustUnixTimeNano"}
			timeTexts := []string{"0", "1", "-1", "1609180603", "1609180603123", "1609180603123456789", "x", "", "1e3", "99999999999", " 1", "+5", "007"}
			for k := 1 + rng.Intn(3); k > 0; k-- {
				x := &xcall{name: names[rng.Intn(len(names))], param: fmt.Sprintf("x%d", len(xs)), tu: c08Text{V: 7}, str: "PRESET", tm: time.Unix(7, 0)}
				switch {
				case strings.Contains(x.name, "UnixTime"):
					x.text = timeTexts[rng.Intn(len(timeTexts))]
				case rng.Intn(2) == 0:
					x.text = []string{"1", "127", "-128", "128", "x", "", "12", "+3", "-0"}[rng.Intn(9)]
				default:
					x.text = pick()
				}
				if rng.Intn(8) != 0 {
					q.Add(x.param, x.text)
				} else {
					x.text = "" // absent
				}
				xs = append(xs, x)
			}
			req := httptest.NewRequest(http.MethodGet, "/?"+q.Encode(), nil)
			c := recycledContext(e, req, httptest.NewRecorder())
			b := echo.QueryParamsBinder(c).FailFast(ff)
			panicked := false
			func() {
				defer func() {
					if r := recover(); r != nil {
						panicked = true
					}
				}()
				for _, x := range xs {
					switch x.name {
					case "TextUnmarshaler":
						b.TextUnmarshaler(x.param, &x.tu)
					case "MustTextUnmarshaler":
						b.MustTextUnmarshaler(x.param, &x.tu)
					case "BindUnmarshaler":
						b.BindUnmarshaler(x.param, &x.tu)
					case "MustBindUnmarshaler":
						b.MustBindUnmarshaler(x.param, &x.tu)
					case "JSONUnmarshaler":
						b.JSONUnmarshaler(x.param, &x.tu)
					case "MustJSONUnmarshaler":
						b.MustJSONUnmarshaler(x.param, &x.tu)
					case "String":
						b.String(x.param, &x.str)
					case "MustString":
						b.MustString(x.param, &x.str)
					case "UnixTime":
						b.UnixTime(x.param, &x.tm)
					case "MustUnixTime":
						b.MustUnixTime(x.param, &x.tm)
					case "UnixTimeMilli":
						b.UnixTimeMilli(x.param, &x.tm)
					case "MustUnixTimeMilli":
						b.MustUnixTimeMilli(x.param, &x.tm)
					case "UnixTimeNano":
						b.UnixTimeNano(x.param, &x.tm)
					case "MustUnixTimeNano":
						b.MustUnixTimeNano(x.param, &x.tm)
					}
				}
			}()
			errs := b.BindErrors()
			ok, why := true, ""
			if panicked {
				ok, why = false, "value binder panicked"
			}
			errSeen := false
			var calls, outs, orcs []Sx
			var hs []string
			for _, x := range xs {
				must := strings.HasPrefix(x.name, "Must")
				var preset, got, want *big.Int // want == nil: the text is not valid for this destination
				fam, bits := 5, 8
				switch {
				case strings.Contains(x.name, "Unmarshaler"):
					preset, got = big.NewInt(7), big.NewInt(int64(x.tu.V))
					if n8, perr := strconv.ParseInt(x.text, 10, 8); perr == nil {
						want = big.NewInt(n8)
					}
				case strings.Contains(x.name, "String"):
					fam, bits = 6, 64
					preset, got, want = encStr("PRESET"), encStr(x.str), encStr(x.text)
				default:
					fam, bits = 7, map[bool]int{true: 1}[x.name == "UnixTime" || x.name == "MustUnixTime"]
					unit := int64(1_000_000_000)
					if strings.Contains(x.name, "Milli") {
						bits, unit = 2, 1_000_000
					} else if strings.Contains(x.name, "Nano") {
						bits, unit = 3, 1
					}
					preset, got = encTime(time.Unix(7, 0)), encTime(x.tm)
					if n64, perr := strconv.ParseInt(x.text, 10, 64); perr == nil {
						want = new(big.Int).Mul(big.NewInt(n64), big.NewInt(unit)) // that many seconds / milliseconds / nanoseconds after the epoch
					}
				}
				skipped := ff && errSeen
				switch {
				case skipped || x.text == "" || want == nil:
					if got.Cmp(preset) != 0 {
						ok, why = false, fmt.Sprintf("%s(%q) must not write its destination (skipped=%v) but it changed", x.name, x.text, skipped)
					}
					if !skipped && (x.text == "" && must || x.text != "" && want == nil) {
						errSeen = true
					}
				case got.Cmp(want) != 0:
					ok, why = false, fmt.Sprintf("%s(%q): the destination does not hold the value the text denotes", x.name, x.text)
				}
				if x.text != "" {
					if want != nil {
						orcs = append(orcs, L(I(fam), I(bits), S(x.text), B(true), Big(want)))
					} else {
						orcs = append(orcs, L(I(fam), I(bits), S(x.text), B(false), I(0)))
					}
				}
				calls = append(calls, L(I(0), S(x.name), S(x.text), Big(preset)))
				outs = append(outs, L(I(0), Big(got)))
				hs = append(hs, fmt.Sprintf("%s(%q)", x.name, x.text))
			}
			if (len(errs) > 0) != errSeen {
				ok, why = false, fmt.Sprintf("binder reports error=%v but per the texts an error is %v (failFast=%v)", len(errs) > 0, errSeen, ff)
			}
			in := L(I(0), B(ff), L(calls...), L(orcs...))
			emit(Case{In: in, Out: L(L(outs...), B(len(errs) > 0)), Ok: ok, Why: why, Key: Show(in),
				Human: fmt.Sprintf("ValueBinder failFast=%v hand-written scalar methods: %s; error=%v", ff, strings.Join(hs, " "), len(errs) > 0)})
			dist["unmarshaler_string_unixtime_chains"]++
			continue
		}
		if rng.Intn(3) == 0 {
			// ---------------- struct binding, one field
			st := structT{I: 7, I8: 7, I16: 7, I32: 7, I64: 7, U: 7, U8: 7, U16: 7, U32: 7, U64: 7, B: true, F32: 7, F64: 7}
			p8, pu := int8(7), uint16(7)
			st.PI8, st.PU = &p8, &pu
			st.SI8, st.SU = []int8{7}, []uint32{7}
			sv := reflect.ValueOf(&st).Elem()
			fi := rng.Intn(sv.NumField())
			ft := sv.Type().Field(fi)
			tag := ft.Tag.Get("query")
			text := pick()
			vals := []string{text}
			if ft.Type.Kind() == reflect.Slice && rng.Intn(2) == 0 {
				vals = append(vals, pick())
			}
			q := url.Values{}
			ssrc := rng.Intn(4) // 0 query string, 1 path parameter, 2 header, 3 form body through Context.Bind
			if ssrc == 1 && len(vals) > 1 {
				vals = vals[:1] // a path parameter has one value
			}
			for _, v := range vals {
				q.Add(tag, v)
			}
			req := httptest.NewRequest(http.MethodGet, "/?"+q.Encode(), nil)
			switch ssrc {
			case 1:
				req = httptest.NewRequest(http.MethodGet, "/", nil)
			case 2:
				req = httptest.NewRequest(http.MethodGet, "/", nil)
				for _, v := range vals {
					req.Header.Add(tag, v)
				}
			case 3:
				req = httptest.NewRequest(http.MethodPost, "/", strings.NewReader(q.Encode()))
				req.Header.Set(echo.HeaderContentType, echo.MIMEApplicationForm)
			}
			c := recycledContext(e, req, httptest.NewRecorder())
			c.SetParamNames()
			c.SetParamValues()
			if ssrc == 1 {
				c.SetParamNames(tag)
				c.SetParamValues(vals[0])
			}
			dist[fmt.Sprintf("struct_field_source_%d", ssrc)]++
			var err error
			panicked := false
			func() {
				defer func() {
					if r := recover(); r != nil {
						panicked = true
					}
				}()
				switch ssrc {
				case 0:
					err = (&echo.DefaultBinder{}).BindQueryParams(c, &st)
				case 1:
					err = (&echo.DefaultBinder{}).BindPathParams(c, &st)
				case 2:
					err = (&echo.DefaultBinder{}).BindHeaders(c, &st)
				default:
					err = c.Bind(&st)
				}
			}()
			fv := sv.Field(fi)
			for fv.Kind() == reflect.Ptr {
				fv = fv.Elem()
			}
			ok, why := true, ""
			if panicked {
				ok, why = false, "struct binding panicked"
			}
			if err != nil {
				if he, isHE := err.(*echo.HTTPError); !isHE || he.Code != 400 {
					ok, why = false, fmt.Sprintf("binding error is not a 400: %v", err)
				}
			}
			kind := fv.Kind()
			var in, out Sx
			in, out = L(I(3)), L(I(0))
			check := func(elem reflect.Value, text string) {
				k := elem.Kind()
				switch {
				case isInt(k):
					t := text
					if t == "" {
						t = "0"
					}
					want := c08Ref(signed(k), elem.Type().Bits(), t)
					if err == nil && (want == nil || bigOf(elem).Cmp(want) != 0) {
						ok, why = false, fmt.Sprintf("field %s bound from %q holds %v, text denotes %v", ft.Name, text, bigOf(elem), want)
					}
					if err != nil && want != nil && len(vals) == 1 {
						ok, why = false, fmt.Sprintf("field %s: valid text %q rejected: %v", ft.Name, text, err)
					}
				case k == reflect.Bool:
					t := text
					if t == "" {
						t = "false"
					}
					wb, werr := strconv.ParseBool(t)
					if (err == nil) != (werr == nil) || err == nil && elem.Bool() != wb {
						ok, why = false, fmt.Sprintf("bool field from %q: got %v err=%v", text, elem.Bool(), err)
					}
				case k == reflect.Float32 || k == reflect.Float64:
					t := text
					if t == "" {
						t = "0.0"
					}
					wf, werr := strconv.ParseFloat(t, elem.Type().Bits())
					if (err == nil) != (werr == nil) && len(vals) == 1 || err == nil && werr == nil && elem.Float() != wf && !(math.IsNaN(wf) && math.IsNaN(elem.Float())) {
						ok, why = false, fmt.Sprintf("float%d field from %q: got %v err=%v, want %v err=%v", elem.Type().Bits(), text, elem.Float(), err, wf, werr)
					}
				}
			}
			if kind == reflect.Slice {
				if err == nil {
					if fv.Len() != len(vals) {
						ok, why = false, fmt.Sprintf("slice field %s has %d elements for %d values", ft.Name, fv.Len(), len(vals))
					} else {
						for i := range vals {
							check(fv.Index(i), vals[i])
						}
					}
				}
			} else {
				check(fv, text)
				if isInt(kind) || kind == reflect.Bool || kind == reflect.Float32 || kind == reflect.Float64 {
					kn := strings.ToLower(kind.String())
					preset := reflect.New(fv.Type()).Elem()
					c08Preset(preset)
					var orcs []Sx
					if f, _ := famBits(fv.Type()); f >= 2 {
						eff := text
						if eff == "" {
							eff = map[int]string{2: "0.0", 3: "false"}[f]
						}
						orcs = append(orcs, oracle(fv.Type(), eff))
					}
					in = L(I(1), S(kn), S(text), encVal(preset), L(orcs...))
					out = L(B(err != nil), encVal(fv))
				}
			}
			cs := Case{In: in, Out: out, Ok: ok, Why: why,
				Human: fmt.Sprintf("struct field %s (%s, preset 7) <- query %q: err=%v value=%v", ft.Name, ft.Type, vals, err, fv.Interface())}
			if (isInt(kind) || kind == reflect.Bool || kind == reflect.Float32 || kind == reflect.Float64) && kind != reflect.Slice {
				if c08IsBoundary(text) {
					cs.Key = Show(in)
				}
			} else {
				cs.In, cs.Out = L(I(2), S(text)), c08BoolOut(text) // keep the model busy with ParseBool on the same text
				if kind == reflect.Bool {
					cs.Key = "bool|" + text
				}
			}
			dist["struct_field_cases"]++
			emit(cs)
			continue
		}
		// ---------------- value binder chains (two chains on the same binder, errors collected in between)
		ff := rng.Intn(2) == 0
		q := url.Values{}
		type callT struct {
			m     meth
			vals  []string
			dest  reflect.Value
			param string
			delim string // non-empty: bound through BindWithDelimiter / MustBindWithDelimiter
		}
		mkChain := func(base int) []callT {
			var cs []callT
			for k := 1 + rng.Intn(3); k > 0; k-- {
				m := meths[rng.Intn(len(meths))]
				ct := callT{m: m, param: fmt.Sprintf("p%d", base+len(cs))}
				nv := 1
				if m.slice {
					nv = rng.Intn(4)
				} else if rng.Intn(8) == 0 {
					nv = 0
				}
				if m.slice && rng.Intn(4) == 0 {
					ct.delim = []string{",", "|", "::", "; "}[rng.Intn(4)]
				}
				for j := 0; j < nv; j++ {
					v := pick()
					if rng.Intn(2) == 0 {
						v = []string{"1", "127", "-128", "255", "300", "70000", "-1", "x"}[rng.Intn(8)]
					}
					if ct.delim != "" {
						// one request value carrying several items
						for extra := rng.Intn(3); extra > 0; extra-- {
							v += ct.delim + []string{"1", "127", "-128", "255", "300", "-1", "x", "", "1s", "true", "2.5"}[rng.Intn(11)]
						}
					}
					ct.vals = append(ct.vals, v)
					q.Add(ct.param, v)
				}
				if m.slice {
					ct.dest = reflect.New(reflect.SliceOf(m.elem))
					sl := reflect.MakeSlice(reflect.SliceOf(m.elem), 2, 2)
					ct.dest.Elem().Set(sl)
				} else {
					ct.dest = reflect.New(m.elem)
				}
				c08Preset(ct.dest.Elem())
				cs = append(cs, ct)
			}
			return cs
		}
		chains := [][]callT{mkChain(0), mkChain(10)}
		req := httptest.NewRequest(http.MethodGet, "/?"+q.Encode(), nil)
		src := rng.Intn(4) // 0,1 query string; 2 path parameters; 3 form fields of a POST body
		if src == 3 {
			req = httptest.NewRequest(http.MethodPost, "/", strings.NewReader(q.Encode()))
			req.Header.Set(echo.HeaderContentType, echo.MIMEApplicationForm)
		}
		c := recycledContext(e, req, httptest.NewRecorder())
		b := echo.QueryParamsBinder(c)
		switch src {
		case 2:
			// a path parameter has ONE value, and an empty one counts as absent (also for the slice methods)
			var pn, pv []string
			for ci := range chains {
				for k := range chains[ci] {
					ct := &chains[ci][k]
					if len(ct.vals) > 1 {
						ct.vals = ct.vals[:1]
					}
					if len(ct.vals) == 1 && ct.vals[0] == "" {
						ct.vals = nil
					}
					if len(ct.vals) == 1 {
						pn, pv = append(pn, ct.param), append(pv, ct.vals[0])
					}
				}
			}
			req = httptest.NewRequest(http.MethodGet, "/", nil)
			c = recycledContext(e, req, httptest.NewRecorder())
			c.SetParamNames(pn...)
			c.SetParamValues(pv...)
			b = echo.PathParamsBinder(c)
			dist["chains_over_path_params"]++
		case 3:
			b = echo.FormFieldBinder(c)
			dist["chains_over_form_fields"]++
		}
		b = b.FailFast(ff)
		for ci, chain := range chains {
			if ci == 1 {
				if it+1 >= n {
					break
				}
				it++
			}
			panicked := false
			func() {
				defer func() {
					if r := recover(); r != nil {
						panicked = true
					}
				}()
				for _, ct := range chain {
					if ct.delim != "" {
						if strings.HasPrefix(ct.m.name, "Must") {
							b.MustBindWithDelimiter(ct.param, ct.dest.Interface(), ct.delim)
						} else {
							b.BindWithDelimiter(ct.param, ct.dest.Interface(), ct.delim)
						}
						continue
					}
					reflect.ValueOf(b).MethodByName(ct.m.name).Call([]reflect.Value{reflect.ValueOf(ct.param), ct.dest})
				}
			}()
			errs := b.BindErrors() // also resets the binder for the next chain
			hasErr := len(errs) > 0
			ok, why := true, ""
			if panicked {
				ok, why = false, "value binder panicked"
			}
			for _, er := range errs {
				if be, isBE := er.(*echo.BindingError); !isBE || be.Code != 400 {
					ok, why = false, fmt.Sprintf("binder error is not a 400 BindingError: %v", er)
				}
			}
			// reference, call by call
			errSeen := false
			modelable := true
			var calls, outs, orcs []Sx
			boundary := false
			for _, ct := range chain {
				k := ct.m.elem.Kind()
				must := strings.HasPrefix(ct.m.name, "Must")
				skipped := ff && errSeen
				expectErr := false
				var want []interface{}
				if !skipped {
					vs := ct.vals
					if ct.delim != "" {
						vs = nil
						for _, v := range ct.vals {
							vs = append(vs, strings.Split(v, ct.delim)...)
						}
					}
					if !ct.m.slice {
						if len(vs) == 0 || vs[0] == "" {
							vs = nil
						} else {
							vs = vs[:1]
						}
					}
					if len(vs) == 0 {
						expectErr = must
					}
					for _, v := range vs {
						boundary = boundary || c08IsBoundary(v)
						switch {
						case ct.m.elem == durT:
							d, derr := time.ParseDuration(v)
							var w *big.Int
							if derr != nil {
								expectErr = true
							} else {
								w = big.NewInt(int64(d))
							}
							want = append(want, w)
						case isInt(k):
							w := c08Ref(signed(k), ct.m.elem.Bits(), v)
							if w == nil {
								expectErr = true
							}
							want = append(want, w)
						case k == reflect.Bool:
							wb, werr := strconv.ParseBool(v)
							if werr != nil {
								expectErr = true
							}
							want = append(want, wb)
						default:
							wf, werr := strconv.ParseFloat(v, ct.m.elem.Bits())
							if werr != nil {
								expectErr = true
							}
							want = append(want, wf)
						}
					}
				}
				unchanged := c08IsPreset(ct.dest.Elem())
				if skipped || expectErr || len(want) == 0 || (ct.m.slice && errSeen) {
					if !unchanged {
						ok, why = false, fmt.Sprintf("%s(%q) must not write its destination (skipped=%v error=%v earlier-error=%v) but it holds %v", ct.m.name, ct.vals, skipped, expectErr, errSeen, ct.dest.Elem().Interface())
					}
				} else {
					got := ct.dest.Elem()
					if ct.m.slice {
						if got.Len() != len(want) {
							ok, why = false, fmt.Sprintf("%s(%q): %d elements stored", ct.m.name, ct.vals, got.Len())
						} else {
							for i := range want {
								if !c08Equal(got.Index(i), want[i]) {
									ok, why = false, fmt.Sprintf("%s(%q): element %d holds %v, text denotes %v", ct.m.name, ct.vals, i, got.Index(i).Interface(), want[i])
								}
							}
						}
					} else if !c08Equal(got, want[0]) {
						ok, why = false, fmt.Sprintf("%s(%q): destination holds %v, text denotes %v", ct.m.name, ct.vals, got.Interface(), want[0])
					}
				}
				if expectErr && !skipped {
					errSeen = true
				}
				{
					preset := reflect.New(ct.m.elem).Elem()
					c08Preset(preset)
					if f, _ := famBits(ct.m.elem); f >= 2 {
						for _, v := range ct.vals {
							pieces := []string{v}
							if ct.delim != "" {
								pieces = strings.Split(v, ct.delim)
							}
							for _, pc := range pieces {
								if pc != "" || ct.m.slice {
									orcs = append(orcs, oracle(ct.m.elem, pc))
								}
							}
						}
					}
					if ct.m.slice {
						var ds []Sx
						for i := 0; i < ct.dest.Elem().Len(); i++ {
							ds = append(ds, encVal(ct.dest.Elem().Index(i)))
						}
						if ct.delim != "" {
							calls = append(calls, L(I(2), S(ct.m.name), LS(ct.vals), L(encVal(preset), encVal(preset)), S(ct.delim)))
							dist["delimiter_split_calls"]++
						} else {
							calls = append(calls, L(I(1), S(ct.m.name), LS(ct.vals), L(encVal(preset), encVal(preset))))
						}
						outs = append(outs, L(I(1), L(ds...)))
					} else {
						v := ""
						if len(ct.vals) > 0 {
							v = ct.vals[0]
						}
						calls = append(calls, L(I(0), S(ct.m.name), S(v), encVal(preset)))
						outs = append(outs, L(I(0), encVal(ct.dest.Elem())))
					}
				}
			}
			if hasErr != errSeen {
				ok, why = false, fmt.Sprintf("binder reports error=%v but per the texts an error is %v (chain %d, failFast=%v)", hasErr, errSeen, ci, ff)
			}
			in, out := L(I(2), S("chain-with-non-integer-methods")), c08BoolOut("chain-with-non-integer-methods")
			if modelable {
				in, out = L(I(0), B(ff), L(calls...), L(orcs...)), L(L(outs...), B(hasErr))
			}
			var hs []string
			for _, ct := range chain {
				hs = append(hs, fmt.Sprintf("%s(%q)->%v", ct.m.name, ct.vals, ct.dest.Elem().Interface()))
			}
			cs := Case{In: in, Out: out, Ok: ok, Why: why, Human: fmt.Sprintf("ValueBinder failFast=%v chain#%d (dest preset 7): %s; error=%v", ff, ci, strings.Join(hs, " "), hasErr)}
			if boundary || (errSeen && len(chain) > 1) || ci == 1 {
				cs.Key = fmt.Sprintf("%v|%d|%s", ff, ci, strings.Join(hs, "|"))
			}
			dist["binder_chains"]++
			if hasErr {
				dist["binder_chains_with_error"]++
			}
			emit(cs)
		}
	}
}

func c08BoolOut(text string) Sx {
	b, err := strconv.ParseBool(text)
	if err != nil {
		return L(I(0), I(0))
	}
	return L(I(1), B(b))
}

func c08Preset(v reflect.Value) {
	switch v.Kind() {
	case reflect.Slice:
		for i := 0; i < v.Len(); i++ {
			c08Preset(v.Index(i))
		}
	case reflect.Bool:
		v.SetBool(true)
	case reflect.Float32, reflect.Float64:
		v.SetFloat(7)
	case reflect.Int, reflect.Int8, reflect.Int16, reflect.Int32, reflect.Int64:
		v.SetInt(7)
	default:
		v.SetUint(7)
	}
}

func c08IsPreset(v reflect.Value) bool {
	switch v.Kind() {
	case reflect.Slice:
		if v.Len() != 2 {
			return false
		}
		return c08IsPreset(v.Index(0)) && c08IsPreset(v.Index(1))
	case reflect.Bool:
		return v.Bool()
	case reflect.Float32, reflect.Float64:
		return v.Float() == 7
	case reflect.Int, reflect.Int8, reflect.Int16, reflect.Int32, reflect.Int64:
		return v.Int() == 7
	}
	return v.Uint() == 7
}

func c08Equal(v reflect.Value, want interface{}) bool {
	switch w := want.(type) {
	case *big.Int:
		if w == nil {
			return false
		}
		if v.Kind() >= reflect.Int && v.Kind() <= reflect.Int64 {
			return big.NewInt(v.Int()).Cmp(w) == 0
		}
		return new(big.Int).SetUint64(v.Uint()).Cmp(w) == 0
	case bool:
		return v.Bool() == w
	case float64:
		return v.Float() == w || math.IsNaN(w) && math.IsNaN(v.Float())
	}
	return false
}

// c08Text is a destination with its own text conversion (encoding.TextUnmarshaler, echo.BindUnmarshaler, json.Unmarshaler):
// a decimal int8, stored only when the text is valid.
type c08Text struct{ V int8 }

func (t *c08Text) set(s string) error {
	n, err := strconv.ParseInt(s, 10, 8)
	if err != nil {
		return err
	}
	t.V = int8(n)
	return nil
}
func (t *c08Text) UnmarshalText(b []byte) error  { return t.set(string(b)) }
func (t *c08Text) UnmarshalParam(s string) error { return t.set(s) }
func (t *c08Text) UnmarshalJSON(b []byte) error  { return t.set(string(b)) }
