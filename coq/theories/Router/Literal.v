(* C02: a request path equal to a registered all-literal pattern is served by that very route (for the
   route's method), whatever parameter / wildcard routes overlap it: literal text has priority at every
   position and the search never needs to backtrack out of the literal branch. *)
From Coq Require Import List Arith Bool Ascii String Lia Permutation.
Import ListNotations.
From Echo.Router Require Import Spec2 Fuel Refine Insert InsProof Walk Live Toks Build Sound Complete Allow Top.

Theorem search_literal : forall f m pre ls p vals best r,
  m <> NF -> enough f ls -> live_ok pre ls -> uniq ls ->
  In (r, map TLit p) ls -> r_method r = m ->
  search f m pre ls p vals best = Found r vals.
Proof.
  induction f as [|f IH]; intros m pre ls p vals best r Hm He Hok Hu Hin Hr.
  { exfalso. unfold enough in He. rewrite Forall_forall in He. specialize (He _ Hin). lia. }
  cbn [search]. destruct p as [|c p'].
  - (* the path ends where the pattern ends *)
    cbn [map] in Hin. unfold end_check.
    rewrite (is_handler_in _ r (in_term ls r Hin) ltac:(congruence)).
    destruct (find_m (terminals ls) m) as [r'|] eqn:Ef.
    + apply find_m_in in Ef as [Hin' Hm'].
      assert (r' = r) by (eapply term_unique; eauto using in_term; congruence).
      subst r'. reflexivity.
    + exfalso. destruct (find_m_some (terminals ls) m r (in_term ls r Hin) Hr) as [r' E]. congruence.
  - cbn [map] in Hin. unfold end_check at 1. cbn [orelse].
    erewrite nonempty_in by (apply in_advance; exact Hin).
    rewrite (IH m (pre ++ [TLit c]) (advance (TLit c) ls) p' vals best r); auto.
    + apply advance_enough. exact He.
    + apply advance_ok. exact Hok.
    + apply advance_uniq. exact Hu.
    + apply in_advance. exact Hin.
Qed.

Theorem literal_wins rs m p r : wf_table rs -> m <> NF -> In r rs -> rt_m r = m -> rt_toks r = map TLit p ->
  dispatch (build rs) m p = Found (fst (entry_of r)) [].
Proof.
  intros HWf Hm Hin Hr Ht. rewrite (dispatch_spec rs m p HWf). unfold spec_dispatch. destruct HWf as [HW HN].
  apply search_literal; auto.
  - apply enough_table.
  - apply table_live_ok.
  - apply table_uniq; assumption.
  - replace (map TLit p) with (snd (entry_of r)) by (unfold entry_of, new_entry; simpl; exact Ht).
    rewrite <- surjective_pairing. apply in_table. exact Hin.
Qed.
