From Coq Require Import List Arith Bool Ascii String Lia Permutation.
Import ListNotations.
From Echo.Router Require Import Spec2 Fuel.
Open Scope char_scope.

(* ---------- C02 completeness on the specification ---------- *)
(* table-independent matching: a parameter stands for one non-empty-rest segment, '*' for the rest *)
Inductive matchT : list tok -> str -> Prop :=
| M_nil : matchT [] []
| M_lit : forall c ts p, matchT ts p -> matchT (TLit c :: ts) (c :: p)
| M_param : forall ts p, p <> [] -> matchT ts (drop_seg p) -> matchT (TParam :: ts) p
| M_any : forall p, matchT [TAny] p.

Definition is_found (r : res) : Prop := match r with Found _ _ => True | Miss _ => False end.

Lemma orelse_found_l r k : is_found r -> is_found (orelse r k).
Proof. destruct r; simpl; tauto. Qed.
Lemma orelse_found_r r k : (forall b, is_found (k b)) -> is_found (orelse r k).
Proof. destruct r; simpl; auto. Qed.

Lemma find_m_some rs m r : In r rs -> r_method r = m -> exists r', find_m rs m = Some r'.
Proof. intros Hin Hm. unfold find_m. destruct (List.find (fun r0 => str_eqb (r_method r0) m) rs) eqn:E; [eauto|].
  exfalso. pose proof (find_none _ _ E r Hin) as H. simpl in H. unfold str_eqb in H. destruct (str_dec (r_method r) m); congruence. Qed.

Lemma in_advance t ls r rest : In (r, t :: rest) ls -> In (r, rest) (advance t ls).
Proof. intros Hin. unfold advance. apply in_flat_map. exists (r, t :: rest). split; auto.
  unfold adv1. simpl. assert (E : tok_eqb t t = true) by (apply tok_eqb_eq; reflexivity). rewrite E. left. reflexivity. Qed.

Lemma nonempty_in {A} (l : list A) x : In x l -> nonempty l = true.
Proof. destruct l; simpl; [tauto|reflexivity]. Qed.

Lemma in_term ls r : In (r, []) ls -> In r (terminals ls).
Proof. intros H. unfold terminals. apply in_map_iff. exists (r, []). split; auto. apply filter_In. split; auto. Qed.

Lemma is_handler_in rs r : In r rs -> r_method r <> NF -> is_handler rs = true.
Proof. intros Hin Hm. unfold is_handler. apply existsb_exists. exists r. split; auto.
  unfold str_eqb. destruct (str_dec (r_method r) NF); [congruence|reflexivity]. Qed.

Theorem search_complete : forall f m pre ls p vals best r rem,
  m <> NF -> enough f ls -> In (r, rem) ls -> r_method r = m -> matchT rem p ->
  is_found (search f m pre ls p vals best).
Proof.
  induction f as [|f IH]; intros m pre ls p vals best r rem Hm He Hin Hr HM.
  { exfalso. unfold enough in He. rewrite Forall_forall in He. specialize (He _ Hin). lia. }
  cbn [search].
  inversion HM as [|c ts p' HM'|ts p' Hp HM'|p']; subst.
  - (* end of pattern and path *)
    apply orelse_found_l. unfold end_check.
    rewrite (is_handler_in _ r (in_term ls r Hin) ltac:(congruence)).
    destruct (find_m_some (terminals ls) (r_method r) r (in_term ls r Hin) eq_refl) as [r' ->]. exact I.
  - (* literal *)
    apply orelse_found_r. intros b0. apply orelse_found_l. cbn beta iota zeta.
    erewrite nonempty_in by (apply in_advance; exact Hin).
    eapply IH; eauto using advance_enough, in_advance.
  - (* parameter *)
    apply orelse_found_r. intros b0. apply orelse_found_r. intros b1. apply orelse_found_l.
    destruct p as [|c0 p0]; [congruence|]. cbn beta iota zeta.
    erewrite nonempty_in by (apply in_advance; exact Hin).
    destruct (forallb is_term (advance TParam ls)) eqn:El.
    + (* leaf: the pattern ends here, so the strict match has no further segment *)
      assert (ts = []).
      { rewrite forallb_forall in El. specialize (El _ (in_advance TParam ls r ts Hin)). unfold is_term in El. simpl in El.
        destruct ts; [reflexivity|discriminate]. }
      subst ts. inversion HM'; subst.
      eapply (IH (r_method r) _ _ [] _ _ r []); eauto using advance_enough, in_advance. constructor.
    + eapply IH; eauto using advance_enough, in_advance.
  - (* wildcard *)
    apply orelse_found_r. intros b0. apply orelse_found_r. intros b1. apply orelse_found_r. intros b2.
    unfold any_step. erewrite nonempty_in by (apply in_advance; exact Hin). cbn zeta.
    assert (Hinr : In r (map fst (advance TAny ls))).
    { apply in_map_iff. exists (r, []). split; auto. apply in_advance. exact Hin. }
    destruct (find_m_some _ (r_method r) r Hinr eq_refl) as [r' ->]. exact I.
Qed.
Print Assumptions search_complete.
