From Coq Require Import List Arith Bool Ascii String Lia Permutation.
Import ListNotations.
From Echo.Router Require Import Spec2.
Open Scope char_scope.

Definition enough (f : nat) (ls : live) : Prop := Forall (fun x => List.length (snd x) < f) ls.

Lemma advance_enough t f ls : enough (S f) ls -> enough f (advance t ls).
Proof. unfold enough. intros H. apply Forall_forall. intros x Hx. apply advance_in in Hx.
  destruct Hx as [y [Hy [_ Hs]]]. rewrite Forall_forall in H. specialize (H y Hy). rewrite Hs in H. simpl in H. lia. Qed.

Lemma enough_S f ls : enough f ls -> enough (S f) ls.
Proof. unfold enough. intros H. eapply Forall_impl; [|exact H]. simpl. intros. lia. Qed.

Lemma nonempty_enough_pos f (ls : live) : enough f ls -> nonempty ls = true -> 0 < f.
Proof. destruct ls; simpl; [discriminate|]. intros H _. inversion H; subst. lia. Qed.

(* fuel beyond `enough` does not matter *)
Lemma search_fuel : forall f m pre ls p vals best,
  enough f ls -> search f m pre ls p vals best = search (S f) m pre ls p vals best.
Proof.
  induction f as [|f IH]; intros m pre ls p vals best He.
  - (* f = 0: ls must be empty *)
    assert (ls = []) as ->.
    { destruct ls; auto. inversion He; subst. lia. }
    cbn. unfold end_check, terminals. simpl. unfold any_step. simpl.
    destruct p; reflexivity.
  - cbn [search]. apply orelse_ext; [reflexivity|]. intros b0.
    apply orelse_ext.
    { destruct p as [|c p']; [reflexivity|]. cbn zeta.
      destruct (nonempty (advance (TLit c) ls)) eqn:E; [|reflexivity].
      apply IH. apply advance_enough. exact He. }
    intros b1. apply orelse_ext.
    { destruct p as [|c p']; [reflexivity|]. cbn zeta.
      destruct (nonempty (advance TParam ls)) eqn:E; [|reflexivity].
      apply IH. apply advance_enough. exact He. }
    intros b2. reflexivity.
Qed.

Lemma search_fuel_le : forall f f' m pre ls p vals best,
  enough f ls -> f <= f' -> search f m pre ls p vals best = search f' m pre ls p vals best.
Proof.
  intros f f' m pre ls p vals best He Hle. induction Hle; [reflexivity|].
  rewrite IHHle. apply search_fuel. clear - He Hle. induction Hle; auto using enough_S. Qed.
