(* The statement-level translation of RateLimiterMemoryStore.Allow (Gen/Src_ratestore.v, regenerated from
   middleware/rate_limiter.go on every run, language Base/GoLite.v): for every map content, clock and token bucket
   - a visitor that is not in the map is created and STORED before anything else happens to it;
   - the visitor's lastSeen is set to the clock reading BEFORE the sweep is considered, so the sweep this call triggers can
     never take the caller's own visitor (the model's store, Mw/RateLimit.v, sweeps only identifiers idle for longer than
     ExpiresIn - the caller is not one of them);
   - the sweep runs exactly when that clock reading is more than ExpiresIn after the last sweep;
   - the answer is the bucket's own, for one token, and the bucket is asked exactly once.  (C18) *)
From Coq Require Import List ZArith Bool String Lia.
From Echo Require Import Base.GoLite Gen.Src_ratestore.
Import ListNotations.
Open Scope Z_scope.

Section Src.
Variable sym : string -> Z.
Variables (lim ex now now2 allowed since expires : Z).     (* the map's answer, two clock readings, the bucket's answer, now - lastCleanup, ExpiresIn *)

Definition start : state :=
  {| locals := []; fields := [("now.Sub(store.lastCleanup)", since); ("store.expiresIn", expires)];
     events := []; inputs := [[lim; ex]; [now]; [now2]; [allowed]] |}.

Ltac golite := repeat (cbn [exec exec_s eval get put assign locals fields events inputs String.eqb Ascii.eqb Bool.eqb
                            map tl app negb andb orb fst snd]; rewrite ?truthy_b2z).

Definition visitor : Z := if ex =? 0 then sym "new(Visitor)" else lim.
Definition ev_lookup : string * list Z := ("store.visitors[identifier]", []).
Definition ev_store : string * list Z := ("store.visitors[identifier] =", [sym "new(Visitor)"]).
Definition ev_clock : string * list Z := ("store.timeNow", []).
Definition ev_sweep : string * list Z := ("store.cleanupStaleVisitors", []).
Definition ev_bucket : string * list Z := ("limiter.AllowN", [now2; 1]).

Theorem src_store_allow_spec :
  let '(st', ret) := run sym src_store_allow_results src_store_allow start in
  ret = [allowed; sym "nil"] /\
  get (fields st') "limiter.lastSeen" = now /\
  events st' = ([ev_lookup] ++ (if ex =? 0 then [ev_store] else []) ++ [ev_clock] ++
                (if expires <? since then [ev_sweep] else []) ++ [ev_clock; ev_bucket])%list.
Proof.
  unfold run, src_store_allow, src_store_allow_results, start, truthy.
  golite. unfold truthy. destruct (ex =? 0) eqn:Ee; golite; unfold truthy;
    destruct (expires <? since) eqn:Es; golite; repeat split; reflexivity.
Qed.

(* the ORDER: when the sweep test is reached, lastSeen already holds this call's clock reading *)
Fixpoint mentions_sweep (s : stmt) : bool :=
  match s with
  | SEmit tag _ => String.eqb tag "store.cleanupStaleVisitors"
  | SIf _ t e => (fix any (l : list stmt) : bool := match l with [] => false | x :: r => mentions_sweep x || any r end) t
                 || (fix any (l : list stmt) : bool := match l with [] => false | x :: r => mentions_sweep x || any r end) e
  | _ => false
  end.
Fixpoint before_sweep (l : list stmt) : list stmt :=
  match l with [] => [] | x :: r => if mentions_sweep x then [] else x :: before_sweep r end.

Theorem src_store_allow_last_seen_first :
  let '(st', ret) := exec sym src_store_allow_results (before_sweep src_store_allow) start in
  ret = None /\ get (fields st') "limiter.lastSeen" = now /\ get (locals st') "limiter" = visitor /\
  (List.length (before_sweep src_store_allow) < List.length src_store_allow)%nat.
Proof.
  unfold visitor.
  let b := eval vm_compute in (before_sweep src_store_allow) in change (before_sweep src_store_allow) with b.
  unfold start. golite. unfold truthy. destruct (ex =? 0); golite; repeat split; try reflexivity; vm_compute; lia.
Qed.
End Src.

Theorem C18_source_store_allow : forall sym lim ex now now2 allowed since expires,
  let '(st', ret) := run sym src_store_allow_results src_store_allow (start lim ex now now2 allowed since expires) in
  ret = [allowed; sym "nil"] /\
  get (fields st') "limiter.lastSeen" = now /\
  events st' = ([ev_lookup] ++ (if ex =? 0 then [ev_store sym] else []) ++ [ev_clock] ++
                (if expires <? since then [ev_sweep] else []) ++ [ev_clock; ev_bucket now2])%list.
Proof. exact src_store_allow_spec. Qed.
Print Assumptions C18_source_store_allow.

Theorem C18_source_last_seen_before_sweep : forall sym lim ex now now2 allowed since expires,
  let '(st', ret) := exec sym src_store_allow_results (before_sweep src_store_allow) (start lim ex now now2 allowed since expires) in
  ret = None /\ get (fields st') "limiter.lastSeen" = now /\ get (locals st') "limiter" = visitor sym lim ex /\
  (List.length (before_sweep src_store_allow) < List.length src_store_allow)%nat.
Proof. exact src_store_allow_last_seen_first. Qed.
Print Assumptions C18_source_last_seen_before_sweep.
