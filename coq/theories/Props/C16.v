(* C16 — static file serving never leaves its root.  Statements only; proofs in Mw/PathCleanProofs.v.
   Lexical containment: [plain x] = the path element x is not "", "." or "..".  The file system
   behind the name (http.Dir / os.DirFS / fs.FS, symlinks, the OS) is not modelled; path.Clean / Join /
   fs.ValidPath are modelled and compared with the real functions on every run (see DESIGN: partial). *)
From Coq Require Import List Bool Ascii String.
From Echo Require Import Base.Sx Net.Xff Mw.CorsProofs Mw.PathClean Mw.PathCleanProofs.
Import ListNotations.

(* for every request path p: Clean("/"+p) is "/" followed by plain elements only *)
Theorem C16_clean_rooted : forall p,
  exists es, clean (slash :: p) = slash :: join slash es /\ Forall plain es /\ Forall no_slash es /\
             es = clean_elems true (segs (slash :: p)).
Proof. exact clean_rooted_string. Qed.
Print Assumptions C16_clean_rooted.

(* Static middleware: for every (already unescaped) path and every root made of plain elements, the
   name handed to the file system is root's elements followed by plain elements: it cannot climb out *)
Theorem C16_contained_mw : forall root_elems p, root_elems <> [] -> Forall plain root_elems -> Forall no_slash root_elems ->
  let root := join slash root_elems in
  exists tail, mw_name root p = join slash (root_elems ++ tail) /\ Forall plain tail /\
               segs (mw_name root p) = root_elems ++ tail.
Proof. exact mw_contained. Qed.
Print Assumptions C16_contained_mw.

(* Static / StaticFS routes: the cleaned name is accepted by a contract-abiding fs.FS (fs.ValidPath, as
   os.DirFS enforces) only if it is "." or consists of plain elements; anything else is a 404 *)
Theorem C16_contained_route : forall p name, route_served p = Some name -> name = dot \/ Forall plain (segs name).
Proof. exact route_contained. Qed.
Print Assumptions C16_contained_route.

Example C16_example :
  clean (lit "/a/../../b/./c//") = lit "/b/c" /\ mw_name (lit "root") (lit "../../etc/passwd") = lit "root/etc/passwd" /\
  route_served (lit "/../secret.txt") = None /\ route_served (lit "/sub/../index.html") = Some (lit "index.html") /\
  route_served (lit "//abs/secret.txt") = None /\ route_name (lit "//abs/secret.txt") = lit "/abs/secret.txt".
Proof. vm_compute. repeat split. Qed.

(* ---- tie to the source by proof: the handler returned by StaticDirectoryHandler (Echo.Static, Group.Static, StaticFS),
   translated statement by statement from echo_fs.go on every run (Gen/Src_staticdir.v, language Base/GoLoop.v).  For every
   wildcard value p, URL path, unescaper, file system (as its Stat answers) and sanitizeURI: an unescapable value is an error
   before the file system is touched; otherwise the ONE name handed to the file system - to fs.Stat and to the serving
   function alike - is [route_name] of the unescaped value, i.e. Clean(TrimPrefix(p, "/")), the name the containment theorem
   above is about; a name that cannot be stat'ed is 404 and nothing is served; a directory whose URL lacks the trailing slash
   is redirected (301) to sanitizeURI(path + "/") instead of being served *)
From Coq Require Import String ZArith.
From Echo Require Import Base.GoLoop Gen.Src_staticdir Mw.StaticDirSrc.

Theorem C16_source_static_dir_handler : forall unescape stat sanitize p urlpath,
  let '(st', ret) := GoLoop.run (ssym p urlpath) (spred unescape stat sanitize) src_static_dir_handler_results src_static_dir_handler StaticDirSrc.start in
  match unescape p with
  | None => events st' = [("url.PathUnescape"%string, [VS p])] /\ ret = [VZ 500]
  | Some q =>
      let name := route_name q in
      let seen := [("url.PathUnescape"%string, [VS p]); ("fs.Stat"%string, [VZ 0; VS name])] in
      match stat name with
      | None => events st' = seen /\ ret = [VZ 404]
      | Some isdir =>
          if isdir && no_trailing_slash urlpath
          then events st' = (seen ++ [("c.Redirect"%string, [VZ 301; VS (sanitize (urlpath ++ lit "/"))])])%list /\ ret = [VZ 301]
          else events st' = (seen ++ [("fsFile"%string, [VZ 0; VS name; VZ 0])])%list /\ ret = [VZ 200]
      end
  end.
Proof. exact src_static_dir_handler_spec. Qed.
Print Assumptions C16_source_static_dir_handler.
