(* Proofs of the short corollaries stated in Props/C19.v (kept out of the statement file). *)
From Coq Require Import List Arith Bool.
From Echo Require Import Mw.Proxy Mw.ProxyProofs Mw.ProxyFair.
Import ListNotations.

Lemma C19_names_stay_unique_l : forall T eqb, (forall a b, eqb a b = true <-> a = b) ->
  forall s t, NoDup (targets T s) ->
  NoDup (targets T (fst (add T eqb s t))) /\ NoDup (targets T (fst (remove T eqb s t))).
Proof. intros T eqb H s t Hn. split; [apply add_nodup; assumption|].
  unfold remove. pose proof (remove1_nodup T eqb H (targets T s) t Hn).
  destruct (remove1 T eqb (targets T s) t); exact H0. Qed.

