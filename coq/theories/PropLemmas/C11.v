(* Proofs of the short corollaries stated in Props/C11.v (kept out of the statement file). *)
From Coq Require Import List Bool ZArith String.
Open Scope string_scope.
From Echo Require Import Base.Sx Mw.Cors Mw.CorsProofs.
Import ListNotations.

Lemma C11_only_allowed_l : forall c pre origin v,
  shaped origin -> Forall (fun p => before_colon p <> None -> shaped p) (origins c) ->
  acao (cors c pre origin) = Some v ->
  (v = [star] /\ In [star] (origins c)) \/
  (v = origin /\ exists p, In p (origins c) /\
      ((p = [star] /\ creds c = true /\ unsafe_wild c = true) \/ p = origin \/ gm p origin = true)).
Proof. intros c pre origin v Hs Hp H. apply cors_acao in H as [_ H]. eapply only_allowed; eassumption. Qed.

