package main

import (
	"fmt"
	"math/rand"
	"net/http"
	"net/http/httptest"
	"net/url"
	"strings"

	"github.com/labstack/echo/v4"
)

func init() {
	props["C20"] = &propRunner{gen: genC20, rule: "named routes over patterns of {literal text, :param, in-segment params, escaped \\:, trailing *} alone or in tables of 2-4 routes x value lists of the pattern's arity (unicode, dots, colons, percent signs, empty wildcard; named-parameter values non-empty and '/'-free); Echo.Reverse output is compared with the model, then requested with the route's method; non-trivial = pattern with an escaped colon or >= 2 parameters, or a table where another route also matches the URL; distinct by (table, route, values)"}
}

func genC20(rng *rand.Rand, n int, emit func(Case), dist map[string]int) {
	pats := []string{"/users/:id", "/users/:id/files/*", "/a/:x/b/:y", `/v1/things\::verb`, `/params\::customVerb`, `/mixed/:id/second\:something`, `/blob\:*`,
		"/static/*", "/", "/a:x", "/u:n/b", `/only\:literal`, "/:a/:b/:c", "/x/:p.json", `/v1/:kind/:name/actions\:restart`, "/files/*", "/ab/:id/", `/\:`, `/k\:v/:id`, "/users/new", "/a/new/b/:y", "/files/new"}
	vals := []string{"1", "42", "a.b", "x:y", "50%", "ü", "a b", "report.pdf", "v1", "%2F", "ñandú", "-", "~", "new", "new", "a%2Fb", "doc%41"}
	anyVals := []string{"", "x", "a/b", "a/b/", "/lead", "deep/er/path.txt", "ü/é"}
	for it := 0; it < n; it++ {
		var rs []rRoute
		k := 1
		if rng.Intn(3) == 0 {
			k = 2 + rng.Intn(3)
		}
		seen := map[string]bool{}
		structural := rng.Intn(3) == 0
		if structural {
			// structural tables: overlapping parameter / wildcard routes for different methods, node splits in any order
			for _, r := range rGenTemplate(rng) {
				if r.method != rNF {
					rs = append(rs, r)
				}
			}
			k = len(rs)
			dist["structural_tables"]++
		}
		for len(rs) < k {
			r := rRoute{[]string{"GET", "POST"}[rng.Intn(2)], pats[rng.Intn(len(pats))]}
			if rng.Intn(6) == 0 {
				r.pattern = rGenPattern(rng)
			}
			if seen[rKey(r)] {
				continue
			}
			seen[rKey(r)] = true
			rs = append(rs, r)
		}
		if !structural && rng.Intn(8) == 0 {
			// several routes with escaped colons sharing prefixes (registered in random order)
			rs = nil
			for _, p := range rEscTables[rng.Intn(len(rEscTables))] {
				rs = append(rs, rRoute{[]string{"GET", "POST"}[rng.Intn(2)], p})
			}
			rng.Shuffle(len(rs), func(i, j int) { rs[i], rs[j] = rs[j], rs[i] })
			dist["escaped_colon_tables"]++
		}
		var forced []string
		if !structural && rng.Intn(8) == 0 {
			// a parameter route plus its own instance as a LITERAL route for another method only: the reversed URL spells
			// that literal, which does not serve the method and therefore does not take priority
			pp := []string{"/users/:id", "/a/:x/b/:y", "/v1/:kind/:name/actions", "/x/:p.json", "/ab/:id/"}[rng.Intn(5)]
			for i := strings.Count(pp, ":"); i > 0; i-- {
				forced = append(forced, []string{"new", "7", "me", "all", "x1"}[rng.Intn(5)])
			}
			lit, _, _ := rSubst(pp, forced)
			ma, mb := "GET", []string{"PUT", "POST", "DELETE"}[rng.Intn(3)]
			rs = []rRoute{{ma, pp}, {mb, lit}}
			if rng.Intn(2) == 0 {
				rs[0], rs[1] = rs[1], rs[0]
			}
			dist["literal_instance_for_another_method"]++
		}
		// escaped colon colliding with a parameter at the same position is the known finding: keep such tables out
		collide := false
		for _, a := range rs {
			for _, b := range rs {
				if strings.Contains(a.pattern, `\:`) && strings.ContainsAny(strings.ReplaceAll(b.pattern, `\:`, ""), ":") && a != b {
					collide = true
				}
			}
		}
		if collide {
			rs = rs[:1]
		}
		e := echo.New()
		out := &rOutcome{}
		names := make([]string, len(rs))
		var firstHandler echo.HandlerFunc
		// a single route may live in a group with middleware (prefix /grp), or in a sub-group of a host group (prefix /api)
		via := 0
		var grp *echo.Group
		hostName := ""
		if len(rs) == 1 && !strings.Contains(rs[0].pattern, `\:`) {
			via = rng.Intn(4)
		}
		pass := func(next echo.HandlerFunc) echo.HandlerFunc { return func(c echo.Context) error { return next(c) } }
		rel := ""
		switch via {
		case 1:
			grp, rel = e.Group("/grp", pass), rs[0].pattern
			rs[0].pattern = "/grp" + rel
			dist["route_in_a_group_with_middleware"]++
		case 2:
			hostName = "admin.example.com"
			grp, rel = e.Host(hostName).Group("/api"), rs[0].pattern
			rs[0].pattern = "/api" + rel
			dist["route_in_a_host_sub_group"]++
		}
		for i, r := range rs {
			id := i
			hf := func(c echo.Context) error {
				*out = rOutcome{status: 200, id: id, names: append([]string(nil), c.ParamNames()...), vals: append([]string(nil), c.ParamValues()...), path: c.Path()}
				return c.NoContent(http.StatusOK)
			}
			if i == 0 {
				firstHandler = hf
			}
			var rt *echo.Route
			if grp != nil {
				rt = grp.Add(r.method, rel, hf)
			} else {
				rt = e.Add(r.method, r.pattern, hf)
			}
			if len(rs) > 1 {
				rt.Name = fmt.Sprintf("route-%d", i) // (a single route keeps its default name, the handler's: Echo.URI finds it by that)
			}
			names[i] = rt.Name
		}
		ti := rng.Intn(len(rs))
		if forced != nil {
			for i, r := range rs {
				if strings.Contains(r.pattern, ":") {
					ti = i
				}
			}
		}
		target := rs[ti]
		// arity and kinds
		var kinds []byte
		p := target.pattern
		for i := 0; i < len(p); i++ {
			switch {
			case p[i] == '\\' && i+1 < len(p) && p[i+1] == ':':
				i++
			case p[i] == ':':
				kinds = append(kinds, ':')
				for i+1 < len(p) && p[i+1] != '/' {
					i++
				}
			case p[i] == '*':
				kinds = append(kinds, '*')
				i = len(p)
			}
		}
		var vs []string
		var args []interface{}
		for _, kd := range kinds {
			v := vals[rng.Intn(len(vals))]
			if structural && rng.Intn(2) == 0 {
				// values that spell the literal text of sibling routes: the request walks into their branches first
				v = []string{"users", "ab", "a", "b", "v1", "us", "abc", "profile", "x", "z", "ploads"}[rng.Intn(11)]
			}
			if kd == '*' {
				v = anyVals[rng.Intn(len(anyVals))]
			}
			if forced != nil && len(vs) < len(forced) {
				v = forced[len(vs)]
			}
			vs = append(vs, v)
			args = append(args, v)
		}
		rev := e.Reverse(names[ti], args...)
		if hostName != "" {
			rev = ""
			if hr := e.Routers()[hostName]; hr != nil {
				rev = hr.Reverse(names[ti], args...) // the route belongs to the host's router
			}
		}
		viaHandler, viaHandlerSet := "", false
		if len(rs) == 1 && hostName == "" {
			// the other entry point: look the route up by its handler (Echo.URI / Echo.URL)
			viaHandler, viaHandlerSet = e.URI(firstHandler, args...), true
			if rng.Intn(2) == 0 {
				viaHandler = e.URL(firstHandler, args...)
			}
		}
		req := httptest.NewRequest(target.method, "/", nil)
		if hostName != "" {
			req.Host = hostName
		}
		req.URL = &url.URL{Path: rev}
		if u, perr := url.ParseRequestURI(rev); perr == nil && !strings.ContainsAny(rev, " ?#") && rng.Intn(2) == 0 {
			// requested the way a client sends it: as the request target, so that percent-escapes in a value stay escapes
			// (the router then works on the raw path)
			req.URL = u
			dist["requested_as_request_target"]++
		}
		if it%3 == 0 {
			e.Pre(func(next echo.HandlerFunc) echo.HandlerFunc { return func(c echo.Context) error { return next(c) } })
		}
		rec := httptest.NewRecorder()
		*out = rOutcome{}
		o := rOutcome{}
		func() {
			defer func() {
				if r := recover(); r != nil {
					o = rOutcome{status: 599}
				}
			}()
			e.ServeHTTP(rec, req)
			if out.status == 200 {
				o = *out
			} else {
				o = rOutcome{status: rec.Code}
			}
		}()
		ok, why := true, ""
		want, cnt, _ := rSubst(target.pattern, vs)
		if !cnt || rev != want {
			ok, why = false, fmt.Sprintf("Reverse(%q, %q) = %q, the pattern instance is %q", target.pattern, vs, rev, want)
		} else if viaHandlerSet && viaHandler != want {
			ok, why = false, fmt.Sprintf("URI(handler of %q, %q) = %q, the pattern instance is %q", target.pattern, vs, viaHandler, want)
		}
		others := false
		for i, r := range rs {
			if i != ti && r.method == target.method && rMatchQ(r.pattern, rev) {
				others = true
			}
		}
		switch {
		case !ok:
		case o.status != 200:
			ok, why = false, fmt.Sprintf("the reversed URL %q of %s %s is answered %d", rev, target.method, target.pattern, o.status)
		case o.id == ti:
			if fmt.Sprint(o.vals) != fmt.Sprint(vs) {
				ok, why = false, fmt.Sprintf("round trip changed the values: sent %q, handler saw %q", vs, o.vals)
			}
		case !others:
			ok, why = false, fmt.Sprintf("the reversed URL %q of route %q was served by %q although no other route takes priority for it", rev, target.pattern, rs[o.id].pattern)
		default:
			ok, why = rCheck(rs, target.method, rev, o)
		}
		in := L(I(2), S(target.pattern), LS(vs))
		cs := Case{In: in, Out: S(rev), Ok: ok, Why: why,
			Human: fmt.Sprintf("table [%s]: Reverse(%s %q, %q) = %q -> %s", rShowTable(rs), target.method, target.pattern, vs, rev, o)}
		if strings.Contains(target.pattern, `\:`) || len(kinds) >= 2 || others {
			cs.Key = fmt.Sprintf("%s|%d|%q", rShowTable(rs), ti, vs)
		}
		dist[fmt.Sprintf("arity_%d", len(kinds))]++
		if strings.Contains(target.pattern, `\:`) {
			dist["escaped_colon_patterns"]++
		}
		emit(cs)
		// the routing of the reversed URL is a second case compared with the model
		if it+1 < n && o.status != 599 {
			it++
			emit(Case{In: L(I(0), rTableSx(rs), S(target.method), S(rev)), Out: o.sx(), Ok: true,
				Human: fmt.Sprintf("table [%s] %s %s -> %s", rShowTable(rs), target.method, rev, o)})
		}
	}
}
