From Coq Require Extraction.
From Coq Require Import ExtrOcamlBasic.
From Echo Require Import Glue.G10.
Extraction "extracted/m10.ml" G10.run_sx.
