(* The statement-level translation of the request handler of KeyAuthWithConfig (Gen/Src_keyauth.v, regenerated from
   middleware/key_auth.go on every run, language Base/GoLoop.v) behaves like the model's [key_auth]: the same validator
   calls in the same order, the handler exactly when a key is accepted, 401 when the validator complained about some key and
   400 when no key was found at all.  (C13) *)
From Coq Require Import List ZArith Bool String Ascii Lia.
From Echo Require Import Base.Sx Base.GoLoop Gen.Src_keyauth Mw.Auth.
Import ListNotations.
Open Scope Z_scope.

Definition xcode (e : xerr) : Z := match e with XMissing => 31 | XInvalid => 32 end.
(* an extractor, for one request, IS what it finds: (keys, err) *)
Definition ext_val (l : lookup) : val :=
  match extract l with
  | inl keys => VL [VL (map VS keys); VZ 0]
  | inr e => VL [VL []; VZ (xcode e)]
  end.

Section Src.
Variable validator : str -> vres.

Definition kpred (p : string) (args : list val) : val :=
  if String.eqb p "extractor" then match args with x :: _ => x | [] => VZ 0 end
  else if String.eqb p "config.Validator" then
    match args with
    | VS k :: _ => match validator k with VTrue => VL [VZ 1; VZ 0] | VFalse => VL [VZ 0; VZ 0] | VErr => VL [VZ 0; VZ 9] end
    | _ => VL [VZ 0; VZ 9]
    end
  else VZ 0.

Definition ksym (s : string) : val :=
  if String.eqb s "result of next" then VZ 200
  else if String.eqb s "errors.New(""invalid key"")" then VZ 8
  else if String.eqb s "&echo.HTTPError{Code:http.StatusUnauthorized,Message:""Unauthorized"",Internal:lastValidatorErr}" then VZ 401
  else if String.eqb s "echo.NewHTTPError(http.StatusBadRequest,err.Error())" then VZ 400
  else VZ 0.          (* nil, the unset ErrorHandler, and constants that are only compared *)

(* what a block does with the outcome of its last statement: hand it on *)
Definition reraise (p : state * ctl) : state * ctl :=
  let (st', c) := p in match c with Next => (st', Next) | Ret vs => (st', Ret vs) | Brk => (st', Brk) | Cont => (st', Cont) end.
Lemma reraise_id p : reraise p = p.
Proof. destruct p as [s [| vs | |]]; reflexivity. Qed.

Definition vcall (k : str) : string * list val := ("config.Validator"%string, [VS k; VZ 0]).

(* try_keys threads the calls made so far *)
Lemma try_keys_app ks cs :
  try_keys validator ks cs = let '(r, c, cs') := try_keys validator ks [] in (r, c, (cs ++ cs')%list).
Proof.
  revert cs. induction ks as [|k r IH]; intros cs; cbn [try_keys].
  - rewrite app_nil_r. reflexivity.
  - destruct (validator k).
    + reflexivity.
    + rewrite (IH (cs ++ [k])%list), (IH ([] ++ [k])%list). destruct (try_keys validator r []) as [[a b] c0]. rewrite <- app_assoc. reflexivity.
    + rewrite (IH (cs ++ [k])%list), (IH ([] ++ [k])%list). destruct (try_keys validator r []) as [[a b] c0]. rewrite <- app_assoc. reflexivity.
Qed.

Section Loops.
Variables vtmp1 : val.
Variables (flds : env) (lsts : list (string * list val)) (inps : list (list val)).
Local Notation mk le lv vx vkeys verr vkey vvalid evs :=
  {| locals := [("c"%string, VZ 0); ("tmp1"%string, vtmp1); ("lastExtractorErr"%string, le); ("lastValidatorErr"%string, lv);
                ("extractor"%string, vx); ("keys"%string, vkeys); ("err"%string, verr); ("key"%string, vkey); ("valid"%string, vvalid);
                ("tmpErr"%string, VZ 0)];
     fields := flds; lists := lsts; events := evs; inputs := inps |}.

(* the inner loop: for _, key := range keys *)
Lemma keys_loop_src (F : state -> state * ctl) le vx vkeys cF cE : goes_on cF -> goes_on cE ->
  (forall k lv verr vvalid evs,
     F (mk le (VZ lv) vx vkeys verr (VS k) vvalid evs) =
     match validator k with
     | VTrue => (mk le (VZ lv) vx vkeys (VZ 0) (VS k) (VZ 1) (evs ++ [vcall k; ("next"%string, [VZ 0])]), Ret [VZ 200])
     | VFalse => (mk le (VZ 8) vx vkeys (VZ 0) (VS k) (VZ 0) (evs ++ [vcall k]), cF)
     | VErr => (mk le (VZ 9) vx vkeys (VZ 9) (VS k) (VZ 0) (evs ++ [vcall k]), cE)
     end) ->
  forall ks lv verr vkey vvalid evs,
  exists lv' verr' vkey' vvalid',
  (range_loop F "key" (map VS ks) (mk le (VZ lv) vx vkeys verr vkey vvalid evs) =
    let '(ran, comp, cs) := try_keys validator ks [] in
    (mk le (VZ lv') vx vkeys verr' vkey' vvalid' (evs ++ map vcall cs ++ (if ran then [("next"%string, [VZ 0])] else [])),
     if ran then Ret [VZ 200] else Next)) /\
  (lv' = 0 <-> lv = 0 /\ snd (fst (try_keys validator ks [])) = false).
Proof.
  intros HcF HcE HF ks. induction ks as [|k r IH]; intros lv verr vkey vvalid evs.
  - exists lv, verr, vkey, vvalid. cbn. rewrite app_nil_r. split; [reflexivity|tauto].
  - cbn [map range_loop try_keys].
    change (set_local (mk le (VZ lv) vx vkeys verr vkey vvalid evs) "key" (VS k)) with (mk le (VZ lv) vx vkeys verr (VS k) vvalid evs).
    rewrite HF. destruct (validator k) eqn:Ev.
    + exists lv, (VZ 0), (VS k), (VZ 1). cbn. split; [reflexivity|tauto].
    + assert (Hgo : forall st, match cF with Next => range_loop F "key" (map VS r) st | Cont => range_loop F "key" (map VS r) st
                                | Brk => (st, Next) | Ret w => (st, Ret w) end = range_loop F "key" (map VS r) st)
        by (intro st; destruct HcF as [-> | ->]; reflexivity).
      rewrite Hgo. clear Hgo.
      destruct (IH 8 (VZ 0) (VS k) (VZ 0) (evs ++ [vcall k])%list) as (lv' & verr' & vkey' & vvalid' & Hr & Hl).
      exists lv', verr', vkey', vvalid'. rewrite Hr. rewrite (try_keys_app r ([] ++ [k])%list).
      destruct (try_keys validator r []) as [[ran comp] cs]. cbn [fst snd app map] in *. rewrite <- !app_assoc. cbn [app].
      split; [reflexivity|]. split; [intro H; apply Hl in H; lia | intros [_ H]; discriminate].
    + assert (Hgo : forall st, match cE with Next => range_loop F "key" (map VS r) st | Cont => range_loop F "key" (map VS r) st
                                | Brk => (st, Next) | Ret w => (st, Ret w) end = range_loop F "key" (map VS r) st)
        by (intro st; destruct HcE as [-> | ->]; reflexivity).
      rewrite Hgo. clear Hgo.
      destruct (IH 9 (VZ 9) (VS k) (VZ 0) (evs ++ [vcall k])%list) as (lv' & verr' & vkey' & vvalid' & Hr & Hl).
      exists lv', verr', vkey', vvalid'. rewrite Hr. rewrite (try_keys_app r ([] ++ [k])%list).
      destruct (try_keys validator r []) as [[ran comp] cs]. cbn [fst snd app map] in *. rewrite <- !app_assoc. cbn [app].
      split; [reflexivity|]. split; [intro H; apply Hl in H; lia | intros [_ H]; discriminate].
Qed.

(* ---- what the outer loop does, as plain functions of the lookups *)
Definition xcall (l : lookup) : string * list val := ("extractor"%string, [ext_val l; VZ 0]).
Fixpoint ranL (ls : list lookup) : bool :=
  match ls with
  | [] => false
  | l :: r => match extract l with inr _ => ranL r | inl keys => fst (fst (try_keys validator keys [])) || ranL r end
  end.
Fixpoint compL (ls : list lookup) : bool :=      (* did the validator complain before a key was accepted / at all *)
  match ls with
  | [] => false
  | l :: r => match extract l with
              | inr _ => compL r
              | inl keys => let '(ran, comp, _) := try_keys validator keys [] in if ran then false else comp || compL r
              end
  end.
Fixpoint kevents (ls : list lookup) : list (string * list val) :=
  match ls with
  | [] => []
  | l :: r => xcall l :: match extract l with
                         | inr _ => kevents r
                         | inl keys => let '(ran, _, cs) := try_keys validator keys [] in
                                       (map vcall cs ++ (if ran then [("next"%string, [VZ 0])] else kevents r))%list
                         end
  end.

(* the outer loop: for _, extractor := range extractors *)
Lemma extractors_loop_src (Fout Fin : state -> state * ctl) cN cF cE :
  (* one iteration whose extractor finds nothing: remember the error, continue *)
  (forall l e le lv vkeys verr vkey vvalid evs, extract l = inr e ->
     Fout (mk (VZ le) (VZ lv) (ext_val l) vkeys verr vkey vvalid evs) =
     (mk (VZ (xcode e)) (VZ lv) (ext_val l) (VL []) (VZ (xcode e)) vkey vvalid (evs ++ [xcall l]), cN)) ->
  (* one iteration whose extractor finds keys: the inner loop over them *)
  (forall l keys le lv vkeys verr vkey vvalid evs, extract l = inl keys ->
     Fout (mk (VZ le) (VZ lv) (ext_val l) vkeys verr vkey vvalid evs) =
     reraise (range_loop Fin "key" (map VS keys) (mk (VZ le) (VZ lv) (ext_val l) (VL (map VS keys)) (VZ 0) vkey vvalid (evs ++ [xcall l])))) ->
  (forall le vx vkeys k lv verr vvalid evs,
     Fin (mk le (VZ lv) vx vkeys verr (VS k) vvalid evs) =
     match validator k with
     | VTrue => (mk le (VZ lv) vx vkeys (VZ 0) (VS k) (VZ 1) (evs ++ [vcall k; ("next"%string, [VZ 0])]), Ret [VZ 200])
     | VFalse => (mk le (VZ 8) vx vkeys (VZ 0) (VS k) (VZ 0) (evs ++ [vcall k]), cF)
     | VErr => (mk le (VZ 9) vx vkeys (VZ 9) (VS k) (VZ 0) (evs ++ [vcall k]), cE)
     end) ->
  goes_on cN -> goes_on cF -> goes_on cE ->
  forall ls le lv vx vkeys verr vkey vvalid evs,
  exists le' lv' vx' vkeys' verr' vkey' vvalid',
  range_loop Fout "extractor" (map ext_val ls) (mk (VZ le) (VZ lv) vx vkeys verr vkey vvalid evs) =
    (mk (VZ le') (VZ lv') vx' vkeys' verr' vkey' vvalid' (evs ++ kevents ls), if ranL ls then Ret [VZ 200] else Next) /\
  (ranL ls = false -> (lv' = 0 <-> lv = 0 /\ compL ls = false)).
Proof.
  intros Hnone Hsome HFin HcN HcF HcE ls. induction ls as [|l r IH]; intros le lv vx vkeys verr vkey vvalid evs.
  - exists le, lv, vx, vkeys, verr, vkey, vvalid. cbn. rewrite app_nil_r. split; [reflexivity|tauto].
  - cbn [map range_loop ranL compL kevents].
    change (set_local (mk (VZ le) (VZ lv) vx vkeys verr vkey vvalid evs) "extractor" (ext_val l))
      with (mk (VZ le) (VZ lv) (ext_val l) vkeys verr vkey vvalid evs).
    destruct (extract l) as [keys|e] eqn:El.
    + rewrite (Hsome l keys le lv vkeys verr vkey vvalid evs El), reraise_id.
      destruct (keys_loop_src Fin (VZ le) (ext_val l) (VL (map VS keys)) cF cE HcF HcE (HFin (VZ le) (ext_val l) (VL (map VS keys)))
                  keys lv (VZ 0) vkey vvalid (evs ++ [xcall l])%list) as (lv1 & verr1 & vkey1 & vvalid1 & Hr & Hl).
      rewrite Hr. destruct (try_keys validator keys []) as [[ran comp] cs]. cbn [fst snd] in *.
      destruct ran.
      * do 7 eexists. cbn [orb]. rewrite <- !app_assoc. cbn [app]. split; [reflexivity|discriminate].
      * destruct (IH le lv1 (ext_val l) (VL (map VS keys)) verr1 vkey1 vvalid1 ((evs ++ [xcall l]) ++ map vcall cs ++ [])%list)
          as (le' & lv' & vx' & vkeys' & verr' & vkey' & vvalid' & Hr2 & Hl2).
        exists le', lv', vx', vkeys', verr', vkey', vvalid'. rewrite Hr2. cbn [orb]. rewrite app_nil_r, <- !app_assoc. cbn [app].
        split; [reflexivity|]. intro Hran. specialize (Hl2 Hran). rewrite Hl2, Hl. destruct comp; cbn [orb]; intuition congruence.
    + rewrite (Hnone l e le lv vkeys verr vkey vvalid evs El).
      assert (Hgo : forall st, match cN with Next => range_loop Fout "extractor" (map ext_val r) st | Cont => range_loop Fout "extractor" (map ext_val r) st
                                | Brk => (st, Next) | Ret w => (st, Ret w) end = range_loop Fout "extractor" (map ext_val r) st)
        by (intro st; destruct HcN as [-> | ->]; reflexivity).
      rewrite Hgo. clear Hgo.
      destruct (IH (xcode e) lv (ext_val l) (VL []) (VZ (xcode e)) vkey vvalid (evs ++ [xcall l])%list)
        as (le' & lv' & vx' & vkeys' & verr' & vkey' & vvalid' & Hr2 & Hl2).
      exists le', lv', vx', vkeys', verr', vkey', vvalid'. rewrite Hr2. rewrite <- !app_assoc. cbn [app]. split; [reflexivity|exact Hl2].
Qed.
End Loops.

(* ---- the model's key_loop in terms of the plain functions *)
Definition vkeys_of (evs : list (string * list val)) : list str :=
  flat_map (fun ev => if String.eqb (fst ev) "config.Validator" then match snd ev with VS k :: _ => [k] | _ => [] end else []) evs.
Lemma vkeys_of_app a b : vkeys_of (a ++ b) = (vkeys_of a ++ vkeys_of b)%list.
Proof. unfold vkeys_of. apply flat_map_app. Qed.
Lemma vkeys_of_vcalls cs : vkeys_of (map vcall cs) = cs.
Proof. induction cs as [|k r IH]; [reflexivity|]. cbn. f_equal. exact IH. Qed.

Lemma key_loop_char ls comp cs :
  key_loop validator ls comp cs =
  (if ranL ls then Ran else Rejected (if comp || compL ls then 401 else 400), (cs ++ vkeys_of (kevents ls))%list).
Proof.
  revert comp cs. induction ls as [|l r IH]; intros comp cs; cbn [key_loop ranL compL kevents].
  - cbn. rewrite app_nil_r, orb_false_r. reflexivity.
  - destruct (extract l) as [keys|e].
    + rewrite (try_keys_app keys cs). destruct (try_keys validator keys []) as [[ran cmp] cs'] eqn:Et. cbn [fst snd].
      change (xcall l :: (map vcall cs' ++ (if ran then [("next"%string, [VZ 0])] else kevents r))%list)
        with ([xcall l] ++ (map vcall cs' ++ (if ran then [("next"%string, [VZ 0])] else kevents r)))%list.
      rewrite !vkeys_of_app, vkeys_of_vcalls. destruct ran; cbn [orb].
      * cbn. rewrite app_nil_r. reflexivity.
      * rewrite IH. cbn [vkeys_of flat_map xcall fst snd String.eqb Ascii.eqb Bool.eqb app]. rewrite orb_assoc, app_assoc. reflexivity.
    + rewrite IH. cbn [vkeys_of flat_map xcall fst snd String.eqb Ascii.eqb Bool.eqb app]. reflexivity.
Qed.

Definition is_next (ev : string * list val) : bool := String.eqb (fst ev) "next".
Lemma no_next_in_vcalls cs : existsb is_next (map vcall cs) = false.
Proof. induction cs as [|k r IH]; [reflexivity|exact IH]. Qed.
Lemma next_in_kevents ls : existsb is_next (kevents ls) = ranL ls.
Proof.
  induction ls as [|l r IH]; [reflexivity|]. cbn [kevents ranL existsb]. change (is_next (xcall l)) with false. cbn [orb].
  destruct (extract l) as [keys|e]; [|exact IH].
  destruct (try_keys validator keys []) as [[ran cmp] cs]. cbn [fst]. rewrite existsb_app, no_next_in_vcalls. cbn [orb].
  destruct ran; [reflexivity|exact IH].
Qed.

(* ---- the statement with the loops, cut out of the translated body *)
Definition kmid : nat := first_range src_key_auth_handler.
Definition pre_part : list stmt := firstn kmid src_key_auth_handler.
Definition mid_stmt : stmt := nth kmid src_key_auth_handler SBreak.
Definition post_part : list stmt := skipn (S kmid) src_key_auth_handler.
Lemma src_split : src_key_auth_handler = (pre_part ++ mid_stmt :: post_part)%list.
Proof. vm_compute. reflexivity. Qed.

Lemma truthy_0 : truthy (VZ 0) = false.  Proof. reflexivity. Qed.
Lemma truthy_1 : truthy (VZ 1) = true.  Proof. reflexivity. Qed.
Ltac key_eval :=
  repeat (rewrite ?truthy_b2v, ?truthy_0, ?truthy_1;
          cbn [exec exec_s eval get put getl assign set_local locals fields lists events inputs String.eqb Ascii.eqb Bool.eqb
               map tl app negb andb orb fst snd as_z as_l val_eqb ksym kpred lit list_ascii_of_string str_eqb Z.eqb Pos.eqb xcode]).

Definition start (ls : list lookup) : state :=
  {| locals := [("c"%string, VZ 0); ("tmp1"%string, VZ 0); ("lastExtractorErr"%string, VZ 0); ("lastValidatorErr"%string, VZ 0);
                ("extractor"%string, VZ 0); ("keys"%string, VZ 0); ("err"%string, VZ 0); ("key"%string, VZ 0); ("valid"%string, VZ 0);
                ("tmpErr"%string, VZ 0)];
     fields := []; lists := [("extractors"%string, map ext_val ls)]; events := []; inputs := [[VZ 0]] |}.
Definition called_next (st : state) : bool := existsb is_next (events st).

Theorem src_key_auth_handler_spec ls :
  let '(st', ret) := run ksym kpred src_key_auth_handler_results src_key_auth_handler (start ls) in
  let '(o, calls) := key_auth validator ls in
  vkeys_of (events st') = calls /\
  called_next st' = (match o with Ran => true | Rejected _ => false end) /\
  ret = [VZ (match o with Ran => 200 | Rejected c => Z.of_nat c end)].
Proof.
  unfold run, key_auth. rewrite key_loop_char, src_split, exec_app. unfold src_key_auth_handler_results, start.
  remember (map ext_val ls) as xs eqn:Exs.
  match goal with |- context [exec ?s ?p ?r pre_part ?st] => set (pp := exec s p r pre_part st) end.
  vm_compute in pp. subst pp. cbn [exec].
  let m := eval vm_compute in mid_stmt in change mid_stmt with m.
  key_eval. subst xs.
  match goal with |- context [range_loop ?F "extractor" (map ext_val ls) ?s] =>
    edestruct (extractors_loop_src (VZ 0) [] [("extractors"%string, map ext_val ls)] [] F) as (le' & lv' & vx' & vk' & ve' & vkey' & vv' & Hr & Hl)
  end.
  - (* an extractor that finds nothing *)
    intros l e le lv vkeys verr vkey vvalid evs El. unfold xcall, ext_val. rewrite El.
    destruct e; key_eval; reflexivity.
  - (* an extractor that finds keys *)
    intros l keys le lv vkeys verr vkey vvalid evs El. unfold xcall, ext_val. rewrite El.
    key_eval. unfold reraise. reflexivity.
  - (* one key *)
    intros le vx vkeys k lv verr vvalid evs. unfold vcall.
    destruct (validator k) eqn:Ev; key_eval; rewrite ?Ev; key_eval; rewrite <- ?app_assoc; reflexivity.
  - unfold goes_on; auto.
  - unfold goes_on; auto.
  - unfold goes_on; auto.
  - (* after the loops *)
    rewrite Hr. clear Hr. unfold called_next.
    destruct (ranL ls) eqn:Er.
    + cbn [events fst snd app vkeys_of flat_map String.eqb Ascii.eqb Bool.eqb existsb is_next orb]. rewrite next_in_kevents, Er. repeat split.
    + specialize (Hl eq_refl).
      let m := eval vm_compute in post_part in change post_part with m.
      destruct (compL ls) eqn:Ec.
      * assert (Hz : (lv' =? 0) = false) by (apply Z.eqb_neq; intro H0; apply Hl in H0; destruct H0; discriminate).
        repeat (key_eval; try rewrite Hz; try unfold set_local).
        cbn [events fst snd app vkeys_of flat_map String.eqb Ascii.eqb Bool.eqb existsb is_next orb]. rewrite next_in_kevents, Er. repeat split.
      * assert (Hz : lv' = 0) by (apply Hl; split; reflexivity). subst lv'.
        repeat (key_eval; try unfold set_local; match goal with |- context [if ?b then _ else _] => destruct b eqn:? end);
        repeat (key_eval; try unfold set_local);
        cbn [events fst snd app vkeys_of flat_map String.eqb Ascii.eqb Bool.eqb existsb is_next orb]; rewrite next_in_kevents, Er; repeat split.
Qed.
End Src.
