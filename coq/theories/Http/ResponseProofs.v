From Coq Require Import List ZArith Lia Bool.
From Echo Require Import Http.Response.
Import ListNotations.
Open Scope Z_scope.

(* the invariant linking echo's bookkeeping to the wire *)
Definition Inv (r : resp) : Prop :=
  0 <= size r /\
  if committed r
  then w_status (wr r) = Some (status r) /\ size r = w_bytes (wr r) /\ w_hdr_calls (wr r) = 1%nat
  else w_status (wr r) = None /\ w_bytes (wr r) = 0 /\ size r = 0 /\ w_hdr_calls (wr r) = 0%nat.

Lemma Inv0 s0 : Inv (resp_init s0).
Proof. unfold Inv, resp_init, wire0. simpl. repeat split; lia. Qed.

Lemma Inv_write_header r c : Inv r -> Inv (write_header r c).
Proof.
  unfold Inv, write_header. intros [H0 H]. destruct (committed r) eqn:E; [rewrite E; auto|].
  destruct H as [Hn [Hb [Hs Hc]]]. simpl. rewrite Hn, Hc. repeat split; auto; lia.
Qed.

Lemma commit_committed r : committed (commit_if_needed r) = true.
Proof. unfold commit_if_needed. destruct (committed r) eqn:E; [exact E|].
  unfold write_header. rewrite E. reflexivity. Qed.

Lemma Inv_commit r : Inv r -> Inv (commit_if_needed r).
Proof. unfold commit_if_needed. destruct (committed r); auto using Inv_write_header. Qed.

Lemma Inv_write r k : 0 <= k -> Inv r -> Inv (write r k).
Proof.
  intros Hk HI. unfold write. pose proof (Inv_commit r HI) as [H0 H1].
  pose proof (commit_committed r) as Hc. rewrite Hc in H1. destruct H1 as [Hs [Hsz Hh]].
  unfold Inv. simpl. rewrite Hc. unfold w_write, w_implicit. rewrite Hs. simpl.
  repeat split; auto; lia.
Qed.

Lemma Inv_flush r : Inv r -> Inv (flush r).
Proof.
  intros HI. unfold flush. pose proof (Inv_commit r HI) as [H0 H1].
  pose proof (commit_committed r) as Hc. rewrite Hc in H1. destruct H1 as [Hs [Hsz Hh]].
  unfold Inv. simpl. rewrite Hc. unfold w_flush, w_implicit. rewrite Hs. repeat split; auto.
Qed.

Lemma Inv_preset r c : Inv r -> Inv (preset r c).
Proof. unfold Inv, preset. intros [H0 H]. destruct (committed r) eqn:E; [rewrite E; auto|]. simpl. auto. Qed.

Lemma Inv_step r o : op_ok o -> Inv r -> Inv (step r o).
Proof.
  destruct o; simpl; intros Hok HI; auto using Inv_write_header, Inv_write, Inv_flush, Inv_preset.
  destruct (_ || _); auto using Inv_write_header.
Qed.

Lemma Inv_run_from ops : Forall op_ok ops -> forall r, Inv r -> Inv (run_from r ops).
Proof. unfold run_from. induction 1 as [|o ops Ho _ IH]; intros r Hr; simpl; auto using Inv_step. Qed.

Theorem invariant s0 ops : Forall op_ok ops -> Inv (run s0 ops).
Proof. intros H. apply Inv_run_from; [exact H|apply Inv0]. Qed.

Lemma once s0 ops : Forall op_ok ops -> (w_hdr_calls (wr (run s0 ops)) <= 1)%nat.
Proof. intros H. destruct (invariant s0 ops H) as [_ HI]. destruct (committed (run s0 ops)).
  - destruct HI as [_ [_ E]]. lia.
  - destruct HI as [_ [_ [_ E]]]. lia. Qed.

Lemma truth s0 ops : Forall op_ok ops -> committed (run s0 ops) = true ->
  w_status (wr (run s0 ops)) = Some (status (run s0 ops)) /\ size (run s0 ops) = w_bytes (wr (run s0 ops)).
Proof. intros H Hc. destruct (invariant s0 ops H) as [_ HI]. rewrite Hc in HI. tauto. Qed.

Lemma committed_iff s0 ops : Forall op_ok ops ->
  (committed (run s0 ops) = true <-> w_status (wr (run s0 ops)) <> None).
Proof. intros H. destruct (invariant s0 ops H) as [_ HI].
  destruct (committed (run s0 ops)); split; intros; try congruence.
  - destruct HI as [E _]. congruence.
  - destruct HI as [E _]. congruence. Qed.

(* ---------- later status writes are ignored: once committed, a step changes neither the
   reported status, nor the status on the wire, nor the number of header writes *)
Lemma write_header_committed r c : committed r = true -> write_header r c = r.
Proof. unfold write_header. intros ->. reflexivity. Qed.
Lemma commit_noop r : committed r = true -> commit_if_needed r = r.
Proof. unfold commit_if_needed. intros ->. reflexivity. Qed.
Lemma preset_committed r c : committed r = true -> preset r c = r.
Proof. unfold preset. intros ->. reflexivity. Qed.

Lemma late_ignored r o : Inv r -> committed r = true ->
  committed (step r o) = true /\ status (step r o) = status r /\
  w_status (wr (step r o)) = w_status (wr r) /\ w_hdr_calls (wr (step r o)) = w_hdr_calls (wr r).
Proof.
  intros [_ HI] Hc. rewrite Hc in HI. destruct HI as [Hs _].
  destruct o; simpl;
    rewrite ?preset_committed, ?write_header_committed by assumption;
    try (destruct (_ || _)); rewrite ?write_header_committed by assumption; auto;
    unfold write, flush; rewrite commit_noop by assumption; simpl;
    unfold w_write, w_flush, w_implicit; rewrite Hs; simpl; auto.
Qed.

(* the status that reaches the wire is the one given to the first committing operation *)
Lemma first_status r o : Inv r -> committed r = false -> committed (step r o) = true ->
  w_status (wr (step r o)) = Some (status (step r o)) /\ w_hdr_calls (wr (step r o)) = 1%nat.
Proof.
  intros HI Hc Hc'. assert (Hok : op_ok o \/ True) by auto.
  destruct (Inv_step r match o with Write _ => Write 0 | JSON c _ => JSON c 0 | Blob c _ => Blob c 0 | o' => o' end) as [_ H].
  { destruct o; simpl; lia || exact I. } { exact HI. }
  destruct o; simpl in *; try (rewrite Hc' in H; tauto);
  try (unfold write in *; simpl in *; rewrite commit_committed in *; simpl in *;
       unfold w_write, w_implicit in *; simpl in *;
       destruct H as [H1 [H2 H3]];
       destruct (w_status (wr (commit_if_needed _))) eqn:E; simpl in *; auto; try discriminate).
Qed.

(* ---------- hooks: the log is  befores* header (body afters* )*  *)
Definition is_before (e : ev) : bool := match e with EvBefore _ _ _ => true | _ => false end.
Definition is_header (e : ev) : bool := match e with EvHeader _ => true | _ => false end.
Definition is_tail_ev (e : ev) : bool := match e with EvBody _ | EvAfter _ => true | _ => false end.
Definition before_unseen (e : ev) : bool :=
  match e with EvBefore _ sc sw => negb sc && negb sw | _ => true end.

Definition LogInv (r : resp) : Prop :=
  if committed r
  then exists bs tail, log r = map (fun h => EvBefore h false false) bs ++ EvHeader (status r) :: tail
                       /\ forallb is_tail_ev tail = true
  else log r = [].

Lemma LogInv0 s0 : LogInv (resp_init s0).
Proof. reflexivity. Qed.

Lemma LogInv_write_header r c : Inv r -> LogInv r -> LogInv (write_header r c).
Proof.
  intros [_ HI] HL. unfold write_header. destruct (committed r) eqn:E.
  - unfold LogInv. rewrite E. unfold LogInv in HL. rewrite E in HL. exact HL.
  - unfold LogInv in *. rewrite E in *. simpl. destruct HI as [Hn _]. rewrite HL, Hn. simpl.
    exists (before r), []. split; reflexivity.
Qed.

Lemma LogInv_commit r : Inv r -> LogInv r -> LogInv (commit_if_needed r).
Proof. intros HI HL. unfold commit_if_needed. destruct (committed r); auto using LogInv_write_header. Qed.

Lemma forallb_app_tail l1 l2 : forallb is_tail_ev l1 = true -> forallb is_tail_ev l2 = true ->
  forallb is_tail_ev (l1 ++ l2) = true.
Proof. intros H1 H2. rewrite forallb_app, H1, H2. reflexivity. Qed.

Lemma afters_tail l : forallb is_tail_ev (map EvAfter l) = true.
Proof. induction l; simpl; auto. Qed.

Lemma LogInv_write r k : Inv r -> LogInv r -> LogInv (write r k).
Proof.
  intros HI HL. pose proof (LogInv_commit r HI HL) as H. pose proof (commit_committed r) as Hc.
  unfold LogInv in *. unfold write. simpl. rewrite Hc in *. destruct H as [bs [tl [E Ht]]].
  exists bs, (tl ++ [EvBody k] ++ map EvAfter (after (commit_if_needed r))). split.
  - rewrite E. rewrite <- app_assoc. reflexivity.
  - apply forallb_app_tail; [exact Ht|]. simpl. apply afters_tail.
Qed.

Lemma LogInv_flush r : Inv r -> LogInv r -> LogInv (flush r).
Proof.
  intros HI HL. pose proof (LogInv_commit r HI HL) as H. pose proof (commit_committed r) as Hc.
  unfold LogInv in *. unfold flush. simpl. rewrite Hc in *. exact H.
Qed.

Lemma LogInv_preset r c : LogInv r -> LogInv (preset r c).
Proof. unfold LogInv, preset. destruct (committed r) eqn:E; [rewrite E; auto|]. simpl. auto. Qed.

Lemma LogInv_step r o : Inv r -> LogInv r -> LogInv (step r o).
Proof.
  intros HI HL. destruct o as [c|k| |h|h|c k|c k|c|c]; cbn [step].
  - apply LogInv_write_header; assumption.
  - apply LogInv_write; assumption.
  - apply LogInv_flush; assumption.
  - unfold LogInv in *. simpl. exact HL.
  - unfold LogInv in *. simpl. exact HL.
  - apply LogInv_write; auto using Inv_preset, LogInv_preset.
  - apply LogInv_write; auto using Inv_write_header, LogInv_write_header.
  - apply LogInv_write_header; assumption.
  - destruct (_ || _); auto using LogInv_write_header.
Qed.

Lemma LogInv_run_from ops : Forall op_ok ops -> forall r, Inv r -> LogInv r -> LogInv (run_from r ops).
Proof. unfold run_from. induction 1 as [|o ops Ho _ IH]; intros r Hr HL; simpl; auto.
  apply IH; auto using Inv_step, LogInv_step. Qed.

Theorem log_invariant s0 ops : Forall op_ok ops -> LogInv (run s0 ops).
Proof. intros H. apply LogInv_run_from; auto using Inv0, LogInv0. Qed.
