package main

import (
	"fmt"
	"io"
	"io/fs"
	"math/rand"
	"net/http"
	"net/http/httptest"
	"net/url"
	"os"
	"path"
	"path/filepath"
	"strings"

	"github.com/labstack/echo/v4"
	"github.com/labstack/echo/v4/middleware"
)

func init() {
	props["C16"] = &propRunner{gen: genC16, rule: "request paths over an adversarial segment alphabet (.., ., %2e, %2e%2e, %2f, %5c, backslash, //, double encodings, real file and directory names, names of secrets placed next to the root) x configurations (Static middleware with default / custom filesystem and relative root, HTML5, Browse, IgnoreBase, group mount; Echo.Static, Group.Static, StaticFS with a recording fs.FS) against a real directory tree with unique markers; plus path.Clean / path.Join compared with the model directly; non-trivial = request whose decoded path contains a dot-dot, backslash or encoded separator; distinct by (configuration, path)"}
}

type c16HTTPFS struct {
	inner http.FileSystem
	log   *[]string
}

func (f c16HTTPFS) Open(name string) (http.File, error) {
	*f.log = append(*f.log, name)
	return f.inner.Open(name)
}

type c16FS struct {
	inner fs.FS
	log   *[]string
}

func (f c16FS) Open(name string) (fs.File, error) {
	*f.log = append(*f.log, name)
	return f.inner.Open(name)
}

func genC16(rng *rand.Rand, n int, emit func(Case), dist map[string]int) {
	base, err := os.MkdirTemp("", "c16base")
	if err != nil {
		panic(err)
	}
	defer os.RemoveAll(base)
	root := filepath.Join(base, "root")
	files := map[string]string{
		"root/index.html": "MARK-ROOT-INDEX", "root/file.txt": "MARK-ROOT-FILE", "root/sub/index.html": "MARK-SUB-INDEX",
		"root/sub/f.txt": "MARK-SUB-F", "root/sub/deep/x.txt": "MARK-DEEP-X", "root/assets/a.css": "MARK-ASSET",
		"root/.hidden.css": "MARK-DOTFILE", "root/.well-known/security.txt": "MARK-WELL-KNOWN", "root/well-known/security.txt": "MARK-NOT-THE-DOT-DIRECTORY",
		"index.html": "SECRET-OUTSIDE-4-index-next-to-the-root", "secret.txt": "SECRET-OUTSIDE-1", "other/secret2.txt": "SECRET-OUTSIDE-2", "rootx/secret3.txt": "SECRET-OUTSIDE-3",
	}
	for p, c := range files {
		full := filepath.Join(base, filepath.FromSlash(p))
		os.MkdirAll(filepath.Dir(full), 0o755)
		os.WriteFile(full, []byte(c), 0o644)
	}
	cwd, _ := os.Getwd()
	os.Chdir(base) // relative roots
	defer os.Chdir(cwd)
	var opened []string
	type cfgT struct {
		name   string
		e      *echo.Echo
		prefix string
		kind   int // 1 middleware with recording http.FileSystem (model name), 2 route with recording fs.FS (model name), 0 response only
	}
	mk := func(f func(e *echo.Echo)) *echo.Echo {
		e := echo.New()
		e.Logger.SetOutput(io.Discard)
		f(e)
		return e
	}
	cfgs := []cfgT{
		{"Static middleware, Root=abs", mk(func(e *echo.Echo) { e.Use(middleware.Static(root)) }), "", 0},
		{"Static middleware, Root=relative", mk(func(e *echo.Echo) { e.Use(middleware.Static("root")) }), "", 0},
		{"Static middleware, custom http.FileSystem + Root=root", mk(func(e *echo.Echo) {
			e.Use(middleware.StaticWithConfig(middleware.StaticConfig{Root: "root", Filesystem: c16HTTPFS{http.Dir(base), &opened}}))
		}), "", 1},
		{"Static middleware HTML5, custom http.FileSystem above Root=root", mk(func(e *echo.Echo) {
			e.Use(middleware.StaticWithConfig(middleware.StaticConfig{Root: "root", Filesystem: http.Dir(base), HTML5: true}))
		}), "", 0},
		{"Static middleware Root=abs next to a wildcard route /api/*", mk(func(e *echo.Echo) {
			e.Use(middleware.Static(root))
			e.GET("/api/*", func(c echo.Context) error { return c.String(http.StatusOK, "api") })
		}), "", 0},
		{"Static middleware HTML5+Browse", mk(func(e *echo.Echo) {
			e.Use(middleware.StaticWithConfig(middleware.StaticConfig{Root: root, HTML5: true, Browse: true}))
		}), "", 0},
		{"Static middleware IgnoreBase on group /assets", mk(func(e *echo.Echo) {
			g := e.Group("/assets")
			g.Use(middleware.StaticWithConfig(middleware.StaticConfig{Root: filepath.Join(root, "assets"), IgnoreBase: true}))
		}), "/assets", 0},
		{"Static middleware on group wildcard", mk(func(e *echo.Echo) {
			g := e.Group("/g")
			g.Use(middleware.StaticWithConfig(middleware.StaticConfig{Root: "root", Filesystem: c16HTTPFS{http.Dir(base), &opened}}))
			g.GET("/*", func(c echo.Context) error { return echo.ErrNotFound })
		}), "/g", 0},
		{"Static middleware IgnoreBase+Browse, custom filesystem, Root=relative, on group /assets", mk(func(e *echo.Echo) {
			g := e.Group("/assets")
			g.Use(middleware.StaticWithConfig(middleware.StaticConfig{Root: "root", Filesystem: http.Dir(base), IgnoreBase: true, Browse: true}))
		}), "/assets", 0},
		{"Echo.Static /public -> root, then Group.Static /admin/files -> other (two registrations on one instance)", mk(func(e *echo.Echo) {
			e.Static("/public", root)
			e.Group("/admin").Static("/files", filepath.Join(base, "other"))
		}), "/public", 0},
		{"Echo.Static /public -> root (relative), then Echo.Static /more -> rootx (relative)", mk(func(e *echo.Echo) {
			e.Static("/public", "root")
			e.Static("/more", "rootx")
		}), "/public", 0},
		{"Echo.Static /static", mk(func(e *echo.Echo) { e.Static("/static", root) }), "/static", 0},
		{"Echo.Static / relative", mk(func(e *echo.Echo) { e.Static("/", "root") }), "", 0},
		{"Group.Static /grp/files", mk(func(e *echo.Echo) { e.Group("/grp").Static("/files", root) }), "/grp/files", 0},
		{"StaticFS recording fs.FS", mk(func(e *echo.Echo) { e.StaticFS("/fs", c16FS{os.DirFS(root), &opened}) }), "/fs", 2},
		{"File route", mk(func(e *echo.Echo) { e.File("/one", filepath.Join(root, "file.txt")) }), "/one", 0},
		{"File route (Echo.FileFS)", mk(func(e *echo.Echo) { e.FileFS("/onefs", "file.txt", os.DirFS(root)) }), "/onefs", 0},
		{"File route (Group.File)", mk(func(e *echo.Echo) { e.Group("/gf").File("/one", filepath.Join(root, "file.txt")) }), "/gf/one", 0},
		{"File route (Group.FileFS)", mk(func(e *echo.Echo) { e.Group("/gf").FileFS("/two", "sub/f.txt", os.DirFS(root)) }), "/gf/two", 0},
		{"Group.StaticFS /gsfs/files", mk(func(e *echo.Echo) { e.Group("/gsfs").StaticFS("/files", os.DirFS(root)) }), "/gsfs/files", 0},
	}
	// roots "." and "" name the directory the instance was created in (echo.New captures it)
	os.Chdir(root)
	cfgs = append(cfgs,
		cfgT{"Echo.Static / root=. (instance created inside the root)", mk(func(e *echo.Echo) { e.Static("/", ".") }), "", 0},
		cfgT{"Group.Static /dot/files root=\"\"", mk(func(e *echo.Echo) { e.Group("/dot").Static("/files", "") }), "/dot/files", 0},
		cfgT{"Echo.Static /cur root=./", mk(func(e *echo.Echo) { e.Static("/cur", "./") }), "/cur", 0})
	os.Chdir(base)
	// the instance's file system re-rooted first: later relative roots are relative to THAT directory, not to the process cwd
	cfgs = append(cfgs,
		cfgT{"Echo.Filesystem = MustSubFS(fs, <root>), then Static /o -> other (does not exist under the root; base/other holds a secret)", mk(func(e *echo.Echo) {
			e.Filesystem = echo.MustSubFS(e.Filesystem, root)
			e.Static("/o", "other")
		}), "/o", 0},
		cfgT{"Echo.Filesystem = MustSubFS(fs, <root>), then Static /s -> sub", mk(func(e *echo.Echo) {
			e.Filesystem = echo.MustSubFS(e.Filesystem, root)
			e.Static("/s", "sub")
		}), "/s", 0})
	segsA := []string{"..", ".", "%2e%2e", "%2e", "%2f", "%5c", "\\", "", "sub", "deep", "file.txt", "index.html", "secret.txt", "other", "rootx",
		"%252e%252e", "..%2f", "%2e%2e%2f", "%2E%2E", "..%5c", "assets", "a.css", "f.txt", "x.txt", "secret2.txt", "secret3.txt", "root", "%00", "..;"}
	for it := 0; it < n; it++ {
		if rng.Intn(6) == 0 {
			// path.Clean / path.Join against the model
			var sb strings.Builder
			if rng.Intn(3) != 0 {
				sb.WriteString("/")
			}
			for k := rng.Intn(6); k > 0; k-- {
				sb.WriteString([]string{"..", ".", "", "a", "b", "sub", "..", "c.d"}[rng.Intn(8)])
				if rng.Intn(5) != 0 {
					sb.WriteString("/")
				}
			}
			p := sb.String()
			if rng.Intn(2) == 0 {
				emit(Case{In: L(I(0), S(p)), Out: S(path.Clean(p)), Ok: true, Human: fmt.Sprintf("path.Clean(%q) = %q", p, path.Clean(p)),
					Key: "clean|" + p})
			} else {
				a := []string{"root", ".", "a/b", "x"}[rng.Intn(4)]
				b := p
				if b == "" {
					b = "/"
				}
				emit(Case{In: L(I(3), S(a), S(b)), Out: S(path.Join(a, b)), Ok: true, Human: fmt.Sprintf("path.Join(%q, %q) = %q", a, b, path.Join(a, b)),
					Key: "join|" + a + "|" + b})
			}
			dist["path_function_cases"]++
			continue
		}
		cf := cfgs[rng.Intn(len(cfgs))]
		var sb strings.Builder
		sb.WriteString(cf.prefix)
		for k := 1 + rng.Intn(5); k > 0; k-- {
			sb.WriteString("/")
			sb.WriteString(segsA[rng.Intn(len(segsA))])
		}
		if rng.Intn(6) == 0 {
			sb.WriteString("/")
		}
		target := sb.String()
		if rng.Intn(12) == 0 { // the absolute path of a secret behind a repeated (possibly encoded) slash
			abs := strings.TrimPrefix(filepath.ToSlash(filepath.Join(base, []string{"secret.txt", "other/secret2.txt"}[rng.Intn(2)])), "/")
			target = cf.prefix + []string{"//", "/%2f", "%2f%2f", "/%2F", "///"}[rng.Intn(5)] + abs
		}
		if rng.Intn(5) == 0 { // a clean path of an existing file
			rel := []string{"/file.txt", "/sub/f.txt", "/sub/deep/x.txt", "/index.html", "/assets/a.css", "/secret2.txt", "/secret.txt", "/secret3.txt", "/f.txt",
				"/.hidden.css", "/.well-known/security.txt", "/well-known/security.txt"}[rng.Intn(12)]
			target = cf.prefix + rel
		}
		if strings.Contains(cf.name, "IgnoreBase") && rng.Intn(2) == 0 {
			// IgnoreBase acts when the last element of the path repeats the base of the route
			target = strings.TrimRight(target, "/") + "/assets"
			if rng.Intn(2) == 0 {
				// ... or merely ENDS with it: a last element that is the route base behind dots or other text is not the route base
				target = strings.TrimSuffix(target, "assets") + []string{"..assets", "%2e%2eassets", ".assets", "xassets", "..assets/", "sub/..assets", "../..assets", "...assets"}[rng.Intn(8)]
				dist["ignore_base_last_element_ends_with_route_base"]++
			}
		}
		if strings.Contains(cf.name, "wildcard route /api/*") && rng.Intn(3) == 0 {
			target = "/api/ping" // served by the route; the NEXT request on the recycled context must not inherit its path
		}
		if strings.HasPrefix(cf.name, "File route") && rng.Intn(3) == 0 {
			target = cf.prefix // the route itself: exactly its one file
		}
		var req *http.Request
		func() {
			defer func() {
				if r := recover(); r != nil {
					req = nil
				}
			}()
			req = httptest.NewRequest(http.MethodGet, target, nil)
		}()
		if req == nil {
			dec, derr := url.PathUnescape(target)
			if derr != nil {
				dec = target
			}
			req = httptest.NewRequest(http.MethodGet, "/", nil)
			req.URL.Path, req.URL.RawPath, req.RequestURI = dec, "", ""
		}
		opened = opened[:0]
		rec := httptest.NewRecorder()
		panicked := false
		func() {
			defer func() {
				if r := recover(); r != nil {
					panicked = true
				}
			}()
			cf.e.ServeHTTP(rec, req)
		}()
		body := rec.Body.String()
		ok, why := true, ""
		if panicked {
			ok, why = false, "static serving panicked"
		}
		if strings.HasPrefix(cf.name, "File route") && target == cf.prefix {
			wantMark := "MARK-ROOT-FILE"
			if strings.Contains(cf.name, "Group.FileFS") {
				wantMark = "MARK-SUB-F"
			}
			if rec.Code != 200 || body != wantMark {
				ok, why = false, fmt.Sprintf("%s: GET %q should serve exactly its file (%q), got %d %q", cf.name, target, wantMark, rec.Code, body)
			}
		}
		if strings.Contains(body, "SECRET-OUTSIDE") || strings.Contains(body, "secret") && rec.Code == 200 && strings.Contains(rec.Header().Get("Content-Type"), "html") && strings.Contains(body, "secret.txt") {
			ok, why = false, fmt.Sprintf("%s: GET %q returned content or a listing of something outside the root: %q", cf.name, target, body)
		}
		// a clean path naming a regular file under the root is served exactly
		rp := req.URL.Path
		if strings.HasPrefix(rp, cf.prefix+"/") && cf.kind != 1 && !strings.Contains(cf.name, "IgnoreBase") && !strings.Contains(cf.name, "File route") && !strings.Contains(cf.name, "group wildcard") && !strings.Contains(cf.name, "MustSubFS") {
			rel := strings.TrimPrefix(rp, cf.prefix)
			if want, isFile := files["root"+rel]; isFile && path.Clean(rel) == rel && req.URL.RawPath == "" {
				if rec.Code != 200 || body != want {
					ok, why = false, fmt.Sprintf("%s: GET %q should serve the file root%s (%q), got %d %q", cf.name, target, rel, want, rec.Code, body)
				}
			}
		}
		// model correspondence on the first name handed to the file system
		in, out := L(I(0), S("/")), S("/")
		decoded := strings.ContainsAny(rp, "\\") || strings.Contains(rp, "..") || strings.Contains(target, "%")
		switch cf.kind {
		case 1:
			p, uerr := url.PathUnescape(req.URL.Path)
			if uerr == nil && len(opened) > 0 {
				in, out = L(I(1), S("root"), S(p)), S(opened[0])
			}
		case 2:
			routerPath := req.URL.Path
			if req.URL.RawPath != "" {
				routerPath = req.URL.RawPath
			}
			if strings.HasPrefix(routerPath, cf.prefix) {
				p, uerr := url.PathUnescape(routerPath[len(cf.prefix):])
				if uerr == nil {
					if len(opened) > 0 {
						in = L(I(2), S(p))
						out = L(B(fs.ValidPath(opened[0])), S(opened[0]))
						// a name the fs.FS contract rejects must end in 404
						if !fs.ValidPath(opened[0]) && rec.Code != 404 {
							ok, why = false, fmt.Sprintf("StaticFS: invalid name %q was answered %d", opened[0], rec.Code)
						}
					}
				}
			}
		}
		cs := Case{In: in, Out: out, Ok: ok, Why: why,
			Human: fmt.Sprintf("%s: GET %q (decoded path %q) -> %d, first name opened %q, body %q", cf.name, target, rp, rec.Code, opened, truncate(body, 60))}
		if decoded {
			cs.Key = cf.name + "|" + target
		}
		dist["config_"+cf.name]++
		dist[fmt.Sprintf("status_%d", rec.Code)]++
		emit(cs)
	}
}

func truncate(s string, n int) string {
	if len(s) > n {
		return s[:n] + "..."
	}
	return s
}
