(* The tail of Router.Find: what happens with the best-match node when no handler was found for
   the method - the custom not-found route registered at that node runs (with the parameter values
   of that position), otherwise 405 / OPTIONS. *)
From Coq Require Import List Arith Bool Ascii String Lia Permutation.
Import ListNotations.
From Echo.Router Require Import Spec2 Fuel Refine Insert InsProof Walk Live Toks Build Sound Complete Allow Top.

Definition toks_eqb (a b : list tok) : bool :=
  Nat.eqb (List.length a) (List.length b) && forallb (fun x => tok_eqb (fst x) (snd x)) (combine a b).

Lemma tok_eqb_eq a b : tok_eqb a b = true -> a = b.
Proof. destruct a, b; simpl; try discriminate; auto. intro H. apply Ascii.eqb_eq in H. subst. reflexivity. Qed.

Lemma toks_eqb_eq : forall a b, toks_eqb a b = true -> a = b.
Proof.
  unfold toks_eqb. induction a as [|x a IH]; destruct b as [|y b]; simpl; intro H; try discriminate; [reflexivity|].
  apply andb_true_iff in H as [Hl H]. apply andb_true_iff in H as [Hxy H].
  apply tok_eqb_eq in Hxy. subst y. f_equal. apply IH. apply andb_true_iff. split; assumption.
Qed.

(* the RouteNotFound route registered exactly at the pattern position [pre] *)
Definition nf_at (rs : list rt) (pre : list tok) : option rt :=
  List.find (fun r => str_eqb (rt_m r) NF && toks_eqb (rt_toks r) pre) (rev rs).   (* the last registration wins *)

Inductive outcome :=
| Served (r : route) (vals : list str)
| NotFound
| NotAllowed (pre : list tok).

Definition finish (rs : list rt) (p : str) (r : res) : outcome :=
  match r with
  | Found r0 v => Served r0 v
  | Miss None => NotFound
  | Miss (Some pre) =>
      match nf_at rs pre with
      | Some rnf =>
          match search (S (S (List.length (rt_toks rnf)))) NF [] [entry_of rnf] p [] None with
          | Found r0 v => Served r0 v
          | Miss _ => NotAllowed pre
          end
      | None => NotAllowed pre
      end
  end.

Definition route_request (rs : list rt) (m p : str) : outcome := finish rs p (dispatch (build rs) m p).

Theorem route_request_sound rs m p r v : wf_table rs ->
  route_request rs m p = Served r v -> subst (r_toks r) v = Some p.
Proof.
  intros HWf H. unfold route_request, finish in H.
  destruct (dispatch (build rs) m p) as [r0 v0|[pre|]] eqn:Ed.
  - inversion H; subst. eapply instance_sound; eassumption.
  - destruct (nf_at rs pre) as [rnf|] eqn:En; [|discriminate].
    destruct (search _ NF [] [entry_of rnf] p [] None) as [r0 v0|b] eqn:Es; [|discriminate].
    inversion H; subst. eapply spec_sound; [| |exact Es].
    + unfold live_ok. constructor; [reflexivity|constructor].
    + apply find_some in En as [Hin _]. apply in_rev in Hin. destruct HWf as [HW _].
      pose proof (table_any_last rs HW) as Hal. unfold any_last in *. rewrite Forall_forall in Hal.
      constructor; [|constructor]. apply Hal. apply in_table. exact Hin.
  - discriminate.
Qed.
