(* The statement-level translations of the request handlers of AddTrailingSlashWithConfig and RemoveTrailingSlashWithConfig
   (Gen/Src_slashmw.v, regenerated from middleware/slash.go on every run, language Base/GoLoop.v) behave like the model
   (Mw/Slash.v): a skipped request is handed on untouched; with a redirect code the ONLY Location ever issued is
   sanitizeURI(new path [+ "?" + query]) - [add_slash] / [remove_slash], the functions C17_*_safe are about - and nothing is
   forwarded; without one the request is forwarded with exactly the new path and request URI of [add_slash_forward] /
   [remove_slash_forward]; a request that needs no change reaches next unchanged.  (C17) *)
From Coq Require Import List ZArith Bool String Ascii Lia.
From Echo Require Import Base.Sx Base.GoLoop Gen.Src_slashmw Mw.Slash.
Import ListNotations.
Open Scope Z_scope.

Section Src.
Variables (skip : bool) (code : Z) (path qs : str).

Definition spred (f : string) (args : list val) : val :=
  if String.eqb f "strings.HasSuffix" then
    match args with [VS s; VS suf] => if str_eqb suf (lit "/") then b2v (ends_with_slash s) else VZ 0 | _ => VZ 0 end
  else if String.eqb f "sanitizeURI" then match args with [VS s] => VS (sanitize_mw s) | _ => VZ 0 end
  else if String.eqb f "len" then match args with [VS s] => VZ (Z.of_nat (List.length s)) | _ => VZ 0 end
  else if String.eqb f "slice_to" then match args with [VS s; VZ i] => VS (firstn (Z.to_nat i) s) | _ => VZ 0 end
  else if String.eqb f "concat" then match args with [VS a; VS b] => VS (a ++ b) | _ => VZ 0 end
  else VZ 0.

Definition ssym (s : string) : val :=
  if String.eqb s "url.Path" then VS path
  else if String.eqb s "c.QueryString()" then VS qs
  else if String.eqb s "config.RedirectCode" then VZ code
  else if String.eqb s "result of next" then VZ 200
  else if String.eqb s "result of c.Redirect" then VZ 302
  else VZ 0.

Lemma truthy_0 : truthy (VZ 0) = false.  Proof. reflexivity. Qed.
Lemma truthy_1 : truthy (VZ 1) = true.  Proof. reflexivity. Qed.
Ltac sl_eval :=
  repeat (rewrite ?truthy_b2v, ?truthy_0, ?truthy_1;
          cbn [exec exec_s eval get put getl assign set_local locals fields lists events inputs String.eqb Ascii.eqb Bool.eqb
               map tl app negb andb orb fst snd as_z as_l val_eqb ssym spred lit list_ascii_of_string str_eqb];
          try unfold set_local).

Definition start : state :=
  {| locals := [("c"%string, VZ 0); ("tmp1"%string, VZ 0); ("req"%string, VZ 0); ("url"%string, VZ 0); ("path"%string, VZ 0);
                ("qs"%string, VZ 0); ("uri"%string, VZ 0); ("l"%string, VZ 0)];
     fields := []; lists := []; events := []; inputs := [[VZ (if skip then 1 else 0)]] |}.

Definition ev_skipper : string * list val := ("config.Skipper"%string, [VZ 0]).
Definition ev_next : string * list val := ("next"%string, [VZ 0]).
Definition ev_redirect (loc : str) : string * list val := ("c.Redirect"%string, [VZ code; VS loc]).
(* the two cells the forward branch writes (unwritten = VZ 0), whatever the order of the two assignments *)
Definition forwarded (p' : str) (u : option str) (f : env) : Prop :=
  match u with
  | Some x => get f "req.RequestURI" = VS x /\ get f "url.Path" = VS p'
  | None => get f "req.RequestURI" = VZ 0 /\ get f "url.Path" = VZ 0
  end.
Definition untouched (f : env) : Prop := forwarded [] None f.

(* what either handler must do, given the model's two readings of it *)
Definition handler_spec (redirect : option str) (fwd : str * option str) (st' : state) (ret : list val) : Prop :=
  if skip then events st' = [ev_skipper; ev_next] /\ untouched (fields st') /\ ret = [VZ 200]
  else if code =? 0 then events st' = [ev_skipper; ev_next] /\ forwarded (fst fwd) (snd fwd) (fields st') /\ ret = [VZ 200]
  else match redirect with
       | Some loc => events st' = [ev_skipper; ev_redirect loc] /\ untouched (fields st') /\ ret = [VZ 302]
       | None => events st' = [ev_skipper; ev_next] /\ untouched (fields st') /\ ret = [VZ 200]
       end.

Theorem src_add_slash_handler_spec :
  let '(st', ret) := run ssym spred src_add_slash_handler_results src_add_slash_handler start in
  handler_spec (add_slash path qs) (add_slash_forward path qs) st' ret.
Proof.
  unfold run, src_add_slash_handler, src_add_slash_handler_results, start, handler_spec, untouched, forwarded, add_slash, add_slash_forward, with_qs.
  destruct skip; sl_eval; [repeat split|].
  destruct (ends_with_slash path) eqn:Es; sl_eval.
  - destruct (code =? 0); repeat split.
  - destruct qs as [|q0 qr]; sl_eval; destruct (code =? 0) eqn:Ec; sl_eval; repeat split.
Qed.

Lemma gt0_len (s : str) : (0 <? Z.of_nat (List.length s) - 1) = Nat.ltb 1 (List.length s).
Proof. destruct (Nat.ltb_spec 1 (List.length s)); destruct (Z.ltb_spec 0 (Z.of_nat (List.length s) - 1)); try reflexivity; lia. Qed.
Lemma cut_last (s : str) : firstn (Z.to_nat (Z.of_nat (List.length s) - 1)) s = removelast s.
Proof. rewrite removelast_firstn_len. f_equal. lia. Qed.

Theorem src_remove_slash_handler_spec :
  let '(st', ret) := run ssym spred src_remove_slash_handler_results src_remove_slash_handler start in
  handler_spec (remove_slash path qs) (remove_slash_forward path qs) st' ret.
Proof.
  unfold run, src_remove_slash_handler, src_remove_slash_handler_results, start, handler_spec, untouched, forwarded, remove_slash, remove_slash_forward, with_qs.
  destruct skip; sl_eval; [repeat split|].
  rewrite gt0_len, ?cut_last.
  destruct (Nat.ltb 1 (List.length path)) eqn:El; sl_eval; [destruct (ends_with_slash path) eqn:Es; sl_eval|].
  - rewrite ?cut_last. destruct qs as [|q0 qr]; sl_eval; destruct (code =? 0) eqn:Ec; sl_eval; repeat split.
  - destruct (code =? 0); repeat split.
  - destruct (code =? 0); repeat split.
Qed.
End Src.

(* ---- closed statements *)
Theorem C17_source_add_slash_handler : forall (skip : bool) (code : Z) (path qs : str),
  let '(st', ret) := run (ssym code path qs) spred src_add_slash_handler_results src_add_slash_handler (start skip) in
  handler_spec skip code (add_slash path qs) (add_slash_forward path qs) st' ret.
Proof. exact src_add_slash_handler_spec. Qed.
Print Assumptions C17_source_add_slash_handler.
Theorem C17_source_remove_slash_handler : forall (skip : bool) (code : Z) (path qs : str),
  let '(st', ret) := run (ssym code path qs) spred src_remove_slash_handler_results src_remove_slash_handler (start skip) in
  handler_spec skip code (remove_slash path qs) (remove_slash_forward path qs) st' ret.
Proof. exact src_remove_slash_handler_spec. Qed.
Print Assumptions C17_source_remove_slash_handler.

(* non-vacuity: a redirect and a forward *)
Example add_slash_src_example :
  let '(st', ret) := run (ssym 308 (lit "//evil.example") (lit "a=1")) spred src_add_slash_handler_results src_add_slash_handler (start false) in
  events st' = [ev_skipper; ev_redirect 308 (lit "/evil.example/?a=1")] /\ ret = [VZ 302].
Proof. vm_compute. split; reflexivity. Qed.
Example remove_slash_src_example :
  let '(st', ret) := run (ssym 0 (lit "/a/b/") (lit "")) spred src_remove_slash_handler_results src_remove_slash_handler (start false) in
  forwarded (lit "/a/b") (Some (lit "/a/b")) (fields st') /\ ret = [VZ 200].
Proof. vm_compute. repeat split; reflexivity. Qed.
