(* Model of middleware/csrf.go (CSRFWithConfig) and util.go's randomString.  (C12) *)
From Coq Require Import List Bool Ascii String Arith NArith.
From Echo Require Import Base.Sx Mw.Auth Gen.Src_csrf.
Import ListNotations.

Definition safe_methods : list str := map list_ascii_of_string csrf_safe_methods.
Definition is_safe (m : str) : bool := existsb (str_eqb m) safe_methods.

Inductive verdict := Pass (token : str) | Reject (code : nat).

(* the token loop: lastTokenErr is set by any compared token that differs; the first lookup that
   holds the token stops the search *)
Fixpoint token_loop (token : str) (ls : list lookup) (tok_err ext_err : bool) : bool * bool * bool :=
  match ls with
  | [] => (false, tok_err, ext_err)
  | l :: r => match extract l with
              | inr _ => token_loop token r tok_err true
              | inl toks => if existsb (str_eqb token) toks then (true, false, false)
                            else token_loop token r true ext_err
              end
  end.

(* cookie: Some value if the request carries the CSRF cookie; fresh: randomString(TokenLength) *)
Definition csrf (method : str) (cookie : option str) (fresh : str) (ls : list lookup) : verdict :=
  let token := match cookie with Some v => v | None => fresh end in
  if is_safe method then Pass token
  else let '(found, tok_err, ext_err) := token_loop token ls false false in
       if found then Pass token
       else if tok_err then Reject 403
       else if ext_err then Reject 400
       else Pass token.

(* what a passed request publishes: Set-Cookie value and context value *)
Definition published (v : verdict) : option (str * str) :=
  match v with Pass t => Some (t, t) | Reject _ => None end.

(* ---------- randomString over an arbitrary byte stream *)
Definition charset : str := list_ascii_of_string random_charset.
Definition accept (b : N) : bool := (b <=? random_max_byte)%N.
Definition letter (b : N) : ascii := nth (N.to_nat (b mod random_charset_len)%N) charset "?"%char.
Definition random_string (n : nat) (stream : list N) : str :=
  firstn n (map letter (filter accept stream)).
