package main

import (
	"bytes"
	"fmt"
	"go/ast"
	"go/printer"
	"go/token"
	"sort"
	"strings"
)

func init() { gens["Src_binder.v"] = genBinder }

// bodySrc prints a function body with go/printer and removes all white space.
func bodySrc(fd *ast.FuncDecl) string {
	var buf bytes.Buffer
	printer.Fprint(&buf, token.NewFileSet(), fd.Body)
	return strings.Join(strings.Fields(buf.String()), "")
}

var typeWidth = map[string]int{"int64": 64, "int32": 32, "int16": 16, "int8": 8, "int": 64,
	"uint64": 64, "uint32": 32, "uint16": 16, "uint8": 8, "byte": 8, "uint": 64, "float64": 64, "float32": 32}

func famOf(helper string) int {
	switch {
	case strings.HasPrefix(helper, "int"):
		return 0
	case strings.HasPrefix(helper, "uint"):
		return 1
	}
	return 2
}

// genBinder extracts, for every exported ValueBinder method that forwards to
// intValue/uintValue/floatValue (scalars) or intsValue/uintsValue/floatsValue (slices):
// the bit size handed to strconv, the width of the destination type and the width of the
// conversion applied in the type switch of int()/uint()/float(); and the kind table of
// bind.go's setWithProperType.
func genBinder(repo string) (string, error) {
	f, err := parseFile(repo, "binder.go")
	if err != nil {
		return "", err
	}
	type scalar struct {
		name, helper, dest string
		bits               string
		must               string
	}
	var scalars, slices, oracleScalars, oracleSlices []scalar
	funcSrc := map[string]string{}              // bool, duration, bools, durations: whole source, blanks removed
	castW := map[string]map[string]int{}        // helper family fn ("int","uint","float") -> dest elem type -> conversion width
	sliceBits := map[string]map[string]string{} // "ints"/"uints"/"floats" -> elem type -> bits literal
	for _, d := range f.Decls {
		fd, ok := d.(*ast.FuncDecl)
		if !ok || fd.Recv == nil || fd.Body == nil {
			continue
		}
		if len(fd.Body.List) == 1 && ast.IsExported(fd.Name.Name) {
			if rs, ok := fd.Body.List[0].(*ast.ReturnStmt); ok && len(rs.Results) == 1 {
				if ce, ok := rs.Results[0].(*ast.CallExpr); ok {
					if se, ok := ce.Fun.(*ast.SelectorExpr); ok && len(fd.Type.Params.List) == 2 {
						h := se.Sel.Name
						dest := strings.TrimPrefix(lit(fd.Type.Params.List[1].Type), "*")
						dest = strings.Replace(dest, "byte", "uint8", 1) // alias
						switch h {
						case "intValue", "uintValue", "floatValue":
							if len(ce.Args) != 4 {
								return "", fmt.Errorf("%s: unexpected arity of %s", fd.Name.Name, h)
							}
							scalars = append(scalars, scalar{fd.Name.Name, h, dest, lit(ce.Args[2]), lit(ce.Args[3])})
						case "boolValue", "duration":
							if len(ce.Args) != 3 {
								return "", fmt.Errorf("%s: unexpected arity of %s", fd.Name.Name, h)
							}
							oracleScalars = append(oracleScalars, scalar{fd.Name.Name, h, dest, "", lit(ce.Args[2])})
						case "boolsValue", "durationsValue":
							if len(ce.Args) != 3 {
								return "", fmt.Errorf("%s: unexpected arity of %s", fd.Name.Name, h)
							}
							oracleSlices = append(oracleSlices, scalar{fd.Name.Name, h, strings.TrimPrefix(dest, "[]"), "", lit(ce.Args[2])})
						case "intsValue", "uintsValue", "floatsValue":
							if len(ce.Args) != 3 {
								return "", fmt.Errorf("%s: unexpected arity of %s", fd.Name.Name, h)
							}
							slices = append(slices, scalar{fd.Name.Name, h, strings.TrimPrefix(dest, "[]"), "", lit(ce.Args[2])})
						}
					}
				}
			}
		}
		switch fd.Name.Name {
		case "bool", "duration", "bools", "durations":
			funcSrc[fd.Name.Name] = bodySrc(fd)
		}
		switch fd.Name.Name {
		case "int", "uint", "float":
			m := map[string]int{}
			ast.Inspect(fd.Body, func(n ast.Node) bool {
				ts, ok := n.(*ast.TypeSwitchStmt)
				if !ok {
					return true
				}
				for _, c := range ts.Body.List {
					cc := c.(*ast.CaseClause)
					if len(cc.List) == 1 && len(cc.Body) == 1 {
						if as, ok := cc.Body[0].(*ast.AssignStmt); ok {
							ty := strings.TrimPrefix(lit(cc.List[0]), "*")
							rhs := lit(as.Rhs[0])
							w := 0
							if rhs == "n" {
								w = 64 // ParseInt/ParseUint/ParseFloat results are 64 bit
							} else if i := strings.Index(rhs, "("); i > 0 && strings.HasSuffix(rhs, "(n)") {
								w = typeWidth[rhs[:i]]
								if famOf(fd.Name.Name) != 2 && (strings.HasPrefix(rhs, "uint") != (fd.Name.Name == "uint")) {
									w = -1 // signedness of the conversion differs from the family
								}
							}
							m[ty] = w
						}
					}
				}
				return false
			})
			castW[fd.Name.Name] = m
		case "ints", "uints", "floats":
			m := map[string]string{}
			ast.Inspect(fd.Body, func(n ast.Node) bool {
				ts, ok := n.(*ast.TypeSwitchStmt)
				if !ok {
					return true
				}
				for _, c := range ts.Body.List {
					cc := c.(*ast.CaseClause)
					if len(cc.List) != 1 {
						continue
					}
					ty := strings.TrimPrefix(lit(cc.List[0]), "*[]")
					inner := strings.TrimSuffix(fd.Name.Name, "s")
					ast.Inspect(cc, func(n2 ast.Node) bool {
						if ce, ok := n2.(*ast.CallExpr); ok && lit(ce.Fun) == "b."+inner && len(ce.Args) == 4 {
							m[ty] = lit(ce.Args[3])
						}
						return true
					})
					// the result must be published only when no error was recorded
					src := ""
					ast.Inspect(cc, func(n2 ast.Node) bool {
						if is, ok := n2.(*ast.IfStmt); ok {
							src += lit(is.Cond) + ";"
						}
						return true
					})
					if !strings.Contains(src, "b.errors==nil") {
						m[ty] = "-1"
					}
				}
				return false
			})
			sliceBits[fd.Name.Name] = m
		}
	}
	if len(scalars) < 20 || len(slices) < 10 {
		return "", fmt.Errorf("binder.go: found only %d scalar and %d slice forwarding methods", len(scalars), len(slices))
	}
	// bool (family 3, width 1) and duration (family 4, width 64): the library parser's result must be stored
	// as it is, only on success (scalar), and a slice must be published only when no error was recorded
	type orcDesc struct {
		fam, w       int
		parse, store string
	}
	orcOf := map[string]orcDesc{
		"boolValue":      {3, 1, "strconv.ParseBool(value)", "*dest=n"},
		"duration":       {4, 64, "time.ParseDuration(value)", "*dest=t"},
		"boolsValue":     {3, 1, "b.bool(sourceParam,v,&tmp[i])", "*dest=tmp"},
		"durationsValue": {4, 64, "time.ParseDuration(v)", "*dest=tmp"},
	}
	srcOf := map[string]string{"boolValue": "bool", "duration": "duration", "boolsValue": "bools", "durationsValue": "durations"}
	if len(oracleScalars) < 4 || len(oracleSlices) < 4 {
		return "", fmt.Errorf("binder.go: found only %d bool/duration scalar and %d slice forwarding methods", len(oracleScalars), len(oracleSlices))
	}
	type extra struct {
		name              string
		fam, bits, dw, cw int
		must              string
	}
	var exScalars, exSlices []extra
	for _, s := range oracleScalars {
		d := orcOf[s.helper]
		src := funcSrc[srcOf[s.helper]]
		cw := d.w
		if !strings.Contains(src, d.parse) || !strings.Contains(src, d.store) {
			cw = 0
		}
		if i, j := strings.Index(src, d.store), strings.Index(src, "err!=nil"); i >= 0 && j >= 0 && i < j {
			cw = -1 // stored before the error check
		}
		exScalars = append(exScalars, extra{s.name, d.fam, d.w, d.w, cw, s.must})
	}
	for _, s := range oracleSlices {
		d := orcOf[s.helper]
		src := funcSrc[srcOf[s.helper]]
		bits, cw := d.w, d.w
		if !strings.Contains(src, d.parse) || !strings.Contains(src, d.store) {
			cw = 0
		}
		if !strings.Contains(src, "ifb.errors==nil{*dest=tmp}") {
			bits = -1
		}
		exSlices = append(exSlices, extra{s.name, d.fam, bits, d.w, cw, s.must})
	}
	for _, x := range exScalars {
		scalars = append(scalars, scalar{name: x.name, helper: fmt.Sprintf("#%d,%d,%d,%d", x.fam, x.bits, x.dw, x.cw), must: x.must})
	}
	for _, x := range exSlices {
		slices = append(slices, scalar{name: x.name, helper: fmt.Sprintf("#%d,%d,%d,%d", x.fam, x.bits, x.dw, x.cw), must: x.must})
	}
	sort.Slice(scalars, func(i, j int) bool { return scalars[i].name < scalars[j].name })
	sort.Slice(slices, func(i, j int) bool { return slices[i].name < slices[j].name })
	var sb strings.Builder
	sb.WriteString("(* GENERATED by go/gen from binder.go and bind.go — do not edit *)\nFrom Coq Require Import List String ZArith.\nImport ListNotations.\nOpen Scope string_scope.\nOpen Scope Z_scope.\n")
	sb.WriteString("(* (method, family 0 int | 1 uint | 2 float | 3 bool | 4 duration, bitSize given to strconv, width of the destination type,\n    width of the conversion in the type switch (0: no arm, -1: wrong signedness), valueMustExist) *)\n")
	sb.WriteString("Definition binder_scalars : list (string * Z * Z * Z * Z * bool) := [\n")
	for i, s := range scalars {
		fn := strings.TrimSuffix(s.helper, "Value")
		if strings.HasPrefix(s.helper, "#") {
			fmt.Fprintf(&sb, "  (%q, %s, %s)", s.name, strings.ReplaceAll(s.helper[1:], ",", ", "), s.must)
		} else {
			fmt.Fprintf(&sb, "  (%q, %d, %s, %d, %d, %s)", s.name, famOf(s.helper), s.bits, typeWidth[s.dest], castW[fn][s.dest], s.must)
		}
		if i < len(scalars)-1 {
			sb.WriteString(";")
		}
		sb.WriteString("\n")
	}
	sb.WriteString("].\n(* slices: (method, family, bitSize given per element (-1: result published without the errors==nil guard), element width, conversion width, valueMustExist) *)\n")
	sb.WriteString("Definition binder_slices : list (string * Z * Z * Z * Z * bool) := [\n")
	for i, s := range slices {
		fn := strings.TrimSuffix(s.helper, "sValue")
		bits := sliceBits[fn+"s"][s.dest]
		if bits == "" {
			bits = "-2"
		}
		if strings.HasPrefix(s.helper, "#") {
			fmt.Fprintf(&sb, "  (%q, %s, %s)", s.name, strings.ReplaceAll(s.helper[1:], ",", ", "), s.must)
		} else {
			fmt.Fprintf(&sb, "  (%q, %d, %s, %d, %d, %s)", s.name, famOf(s.helper), bits, typeWidth[s.dest], castW[fn][s.dest], s.must)
		}
		if i < len(slices)-1 {
			sb.WriteString(";")
		}
		sb.WriteString("\n")
	}
	sb.WriteString("].\n")
	// bind.go kind table
	f2, err := parseFile(repo, "bind.go")
	if err != nil {
		return "", err
	}
	fd := findFunc(f2, "", "setWithProperType")
	if fd == nil {
		return "", fmt.Errorf("setWithProperType not found")
	}
	var kinds []string
	ast.Inspect(fd.Body, func(n ast.Node) bool {
		ss, ok := n.(*ast.SwitchStmt)
		if !ok {
			return true
		}
		for _, c := range ss.Body.List {
			cc := c.(*ast.CaseClause)
			if len(cc.List) == 1 && len(cc.Body) == 1 {
				if rs, ok := cc.Body[0].(*ast.ReturnStmt); ok {
					if ce, ok := rs.Results[0].(*ast.CallExpr); ok && len(ce.Args) == 2 && lit(ce.Fun) == "setBoolField" {
						kinds = append(kinds, fmt.Sprintf("  (%q, 3, 1, 1)", strings.ToLower(strings.TrimPrefix(lit(cc.List[0]), "reflect."))))
					} else if ce, ok := rs.Results[0].(*ast.CallExpr); ok && len(ce.Args) == 3 {
						kind := strings.ToLower(strings.TrimPrefix(lit(cc.List[0]), "reflect."))
						setter := lit(ce.Fun)
						fam := map[string]int{"setIntField": 0, "setUintField": 1, "setFloatField": 2}[setter]
						if _, known := map[string]int{"setIntField": 0, "setUintField": 1, "setFloatField": 2}[setter]; !known {
							continue
						}
						kinds = append(kinds, fmt.Sprintf("  (%q, %d, %s, %d)", kind, fam, lit(ce.Args[1]), typeWidth[kind]))
					}
				}
			}
		}
		return false
	})
	if len(kinds) != 13 {
		return "", fmt.Errorf("setWithProperType: expected 12 numeric kinds and bool, found %d", len(kinds))
	}
	// the setters must parse with the given bitSize in base 10 and store only on success
	for _, nm := range []string{"setIntField", "setUintField", "setFloatField", "setBoolField"} {
		sfd := findFunc(f2, "", nm)
		if sfd == nil {
			return "", fmt.Errorf("%s not found", nm)
		}
		src := lit2(sfd)
		want := map[string]string{"setIntField": "strconv.ParseInt(value,10,bitSize)", "setUintField": "strconv.ParseUint(value,10,bitSize)", "setFloatField": "strconv.ParseFloat(value,bitSize)", "setBoolField": "strconv.ParseBool(value)"}[nm]
		if !strings.Contains(src, want) {
			return "", fmt.Errorf("%s no longer calls %s", nm, want)
		}
	}
	sb.WriteString("(* bind.go setWithProperType: (kind, family, bitSize given to the setter, width of the kind) *)\n")
	sb.WriteString("Definition bind_kinds : list (string * Z * Z * Z) := [\n" + strings.Join(kinds, ";\n") + "\n].\n")
	return sb.String(), nil
}
