(* Consistency of the four method <-> slot tables of router.go (generated into Gen/Src_methods.v on
   every run): every method is read from the slot it is written to, that slot makes the node a handler
   node, and Allow advertises the slot under the method's own name. *)
From Coq Require Import List String Bool.
From Echo Require Import Gen.Src_methods.
Import ListNotations.
Open Scope string_scope.

Fixpoint assoc (k : string) (l : list (string * string)) : option string :=
  match l with [] => None | (a, b) :: r => if String.eqb a k then Some b else assoc k r end.

Definition slot_of_write (m : string) : string := match assoc m add_table with Some s => s | None => add_default end.
Definition slot_of_read (m : string) : string := match assoc m find_table with Some s => s | None => find_default end.

(* one standard method: same slot for write and read, counted by isHandler, advertised under its own name
   (OPTIONS is always advertised first) *)
Definition method_ok (m : string) : bool :=
  let s := slot_of_write m in
  String.eqb s (slot_of_read m) && existsb (String.eqb s) handler_slots &&
  (if String.eqb m allow_first then true
   else match assoc s allow_table with Some name => String.eqb name m | None => false end).

Definition standard_methods : list string :=
  ["CONNECT"; "DELETE"; "GET"; "HEAD"; "OPTIONS"; "PATCH"; "POST"; "PROPFIND"; "PUT"; "TRACE"; "REPORT"].

Definition tables_ok : bool :=
  forallb method_ok standard_methods &&
  (* every method named in a table is a standard one or the not-found pseudo method *)
  forallb (fun r => existsb (String.eqb (fst r)) (not_found_method :: standard_methods)) add_table &&
  forallb (fun r => existsb (String.eqb (fst r)) standard_methods) find_table &&
  (* custom methods: written to and read from the per-name map, which isHandler counts *)
  String.eqb add_default find_default && existsb (String.eqb "anyOther") handler_slots &&
  (* the not-found pseudo method is not a handler slot and is never advertised *)
  negb (existsb (String.eqb (slot_of_write not_found_method)) handler_slots) &&
  negb (existsb (fun r => String.eqb (snd r) not_found_method) allow_table) &&
  (* nothing is advertised twice *)
  (Nat.eqb (List.length (nodup string_dec (map snd allow_table))) (List.length allow_table)).

Lemma tables_agree : tables_ok = true.
Proof. vm_compute. reflexivity. Qed.

Lemma method_agrees m : In m standard_methods -> method_ok m = true.
Proof.
  intro H. assert (F : forallb method_ok standard_methods = true) by (vm_compute; reflexivity).
  rewrite forallb_forall in F. apply F. exact H.
Qed.
