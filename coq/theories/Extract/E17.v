From Coq Require Extraction.
From Coq Require Import ExtrOcamlBasic.
From Echo Require Import Glue.G17.
Extraction "extracted/m17.ml" G17.run_sx.
