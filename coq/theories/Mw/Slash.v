(* Model of sanitizeURI (middleware/slash.go, echo_fs.go), the trailing-slash middlewares'
   redirect targets, the static directory redirect, and the browser's reading of Location. (C17) *)
From Coq Require Import List Bool Ascii String ZArith.
From Echo Require Import Base.Sx Gen.Src_slash.
Import ListNotations.
Open Scope char_scope.

Section Sanitize.
Variable is_slash is_break : ascii -> bool.
Variable collapse : Z -> bool.

(* for ; i < len(uri); i++ { if slash {slashes++} else if break-cond {break} } *)
Fixpoint lead (s : str) (slashes : Z) : Z * str :=
  match s with
  | c :: r => if is_slash c then lead r (slashes + 1)%Z
              else if is_break c then (slashes, s) else lead r slashes
  | [] => (slashes, [])
  end.

(* if collapse slashes { uri = "/" + uri[i:] } *)
Definition sanitize_gen (s : str) : str :=
  let '(k, rest) := lead s 0%Z in if collapse k then "/" :: rest else s.
End Sanitize.

Definition sanitize_mw := sanitize_gen mw_is_slash mw_is_break mw_collapse.   (* middleware/slash.go *)
Definition sanitize_fs := sanitize_gen fs_is_slash fs_is_break fs_collapse.   (* echo_fs.go *)

Fixpoint ends_with_slash (s : str) : bool :=
  match s with [] => false | [c] => Ascii.eqb c "/" | _ :: r => ends_with_slash r end.

Definition with_qs (path qs : str) : str :=
  match qs with [] => path | _ => path ++ "?" :: qs end.

(* AddTrailingSlashWithConfig with RedirectCode <> 0: Some Location, or None = no redirect *)
Definition add_slash (path qs : str) : option str :=
  if ends_with_slash path then None
  else Some (sanitize_mw (with_qs (path ++ ["/"]) qs)).

(* RemoveTrailingSlashWithConfig with RedirectCode <> 0 *)
Definition remove_slash (path qs : str) : option str :=
  if Nat.ltb 1 (List.length path) && ends_with_slash path
  then Some (sanitize_mw (with_qs (removelast path) qs))
  else None.

(* RedirectCode = 0 (the default): the request is forwarded with the new path and request URI instead:
   (path the router sees, Some new RequestURI | None when nothing changes) *)
Definition add_slash_forward (path qs : str) : str * option str :=
  if ends_with_slash path then (path, None)
  else (path ++ ["/"], Some (with_qs (path ++ ["/"]) qs)).
Definition remove_slash_forward (path qs : str) : str * option str :=
  if Nat.ltb 1 (List.length path) && ends_with_slash path
  then (removelast path, Some (with_qs (removelast path) qs))
  else (path, None).

(* StaticDirectoryHandler: a directory requested without trailing slash *)
Definition static_dir (path : str) (is_dir : bool) : option str :=
  if is_dir && negb (ends_with_slash path) && negb (match path with [] => true | _ => false end)
  then Some (sanitize_fs (path ++ ["/"])) else None.

(* ---- how a browser reads a Location value (WHATWG URL): strip leading C0 controls and
   spaces, remove TAB / LF / CR anywhere *)
Definition is_tnl (c : ascii) : bool := Ascii.eqb c "009" || Ascii.eqb c "010" || Ascii.eqb c "013".
Definition is_c0_space (c : ascii) : bool := N.leb (N_of_ascii c) 32.
Fixpoint drop_leading (s : str) : str :=
  match s with c :: r => if is_c0_space c then drop_leading r else s | [] => [] end.
Definition browser_view (s : str) : str := filter (fun c => negb (is_tnl c)) (drop_leading s).

Definition is_sl (c : ascii) : bool := Ascii.eqb c "/" || Ascii.eqb c "\".
(* path-absolute reference on the same host: begins with "/" and not with "//" or "/\"
   (which also excludes a scheme, since a scheme cannot begin with "/") *)
Definition safe_view (v : str) : bool :=
  match v with
  | c :: [] => Ascii.eqb c "/"
  | c :: d :: _ => Ascii.eqb c "/" && negb (is_sl d)
  | [] => false
  end.
Definition safe (loc : str) : bool := safe_view (browser_view loc).

(* ordinary path: what the browser reads is what was sent, and it is already same-host *)
Definition ordinary (p : str) : bool :=
  match p with
  | c :: d :: _ => Ascii.eqb c "/" && negb (is_sl d) && negb (is_tnl d)
  | [c] => Ascii.eqb c "/"
  | [] => false
  end.
