(* C20 — reverse routing and routing are inverse.  Statements only; proofs in Router/Reverse.v, Top.v.
   [reverse] mirrors the loop of Router.Reverse, [parse_pat] the scan of Router.insert. *)
From Coq Require Import List Arith Bool Ascii String Permutation.
From Echo.Router Require Import Spec2 Fuel Refine Insert InsProof Walk Live Toks Build Sound Complete Reverse Top.
Import ListNotations.

(* the two independent parsers agree: reversing a pattern with values of its arity yields exactly the
   instance of the parsed pattern (escaped colons come out as literal colons) *)
Theorem C20_parsers_agree : forall f p vs,
  List.length p < f -> star_last f p = true -> List.length vs = arity (parse_pat f p) ->
  subst (parse_pat f p) vs = Some (reverse f p vs).
Proof. exact Reverse.C20_parsers_agree. Qed.
Print Assumptions C20_parsers_agree.

(* whatever route serves the reversed URL, it is an instance of that route's pattern with the values
   the handler observes (C01), and a route of the request's method that matches it is found (C02) *)
Theorem C20_roundtrip_served : forall rs m u r, wf_table rs -> m <> NF -> In r rs -> rt_m r = m ->
  matchT (rt_toks r) u -> is_found (dispatch (build rs) m u).
Proof. exact instance_complete. Qed.
Print Assumptions C20_roundtrip_served.

From Coq Require Import ZArith.
From Echo Require Import Base.Sx Base.GoLoop Gen.Src_reverse Router.ReverseSrc.
(* the SOURCE of Router.Reverse (translated from router.go on every run, Gen/Src_reverse.v): for every route list, name and
   value list it writes exactly [reverse] of the pattern of the first route registered under that name - nothing if there is
   none - and never runs out of the fuel the translation gave its two byte loops *)
Theorem C20_source_reverse : forall (routes : list (str * str)) (name : str) (vals : list str),
  let '(st', ret) := GoLoop.run rsym rpred src_reverse_results src_reverse (start routes name vals) in
  written (events st') =
    match find (fun r => Sx.str_eqb (fst r) name) routes with
    | Some r => reverse (S (List.length (snd r))) (snd r) vals
    | None => []
    end /\ ret = [VZ 0%Z].
Proof. exact ReverseSrc.C20_source_reverse. Qed.
Print Assumptions C20_source_reverse.
